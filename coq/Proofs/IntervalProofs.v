From Verif Require Import Values Interval IntervalParse.
From Coq Require Import Lia ZifyBool Sorting.Sorted.
Open Scope list_scope.
Open Scope Z_scope.
Ltac Zify.zify_post_hook ::= Z.to_euclidean_division_equations.

(* ---------- times: lexicographic order = order of the microsecond of the day ---------- *)
Lemma time_key_range l : valid_time l = true -> 0 <= time_key l < day_us.
Proof.
  destruct l as [|h [|m [|s [|u [|? ?]]]]]; try discriminate.
  unfold valid_time, in_range, time_key, day_us. intros H. lia.
Qed.

Lemma time_lex_lt a b : valid_time a = true -> valid_time b = true ->
  lex_lt a b = (time_key a <? time_key b).
Proof.
  destruct a as [|h [|m [|s [|u [|? ?]]]]]; try discriminate.
  destruct b as [|h' [|m' [|s' [|u' [|? ?]]]]]; try discriminate.
  unfold valid_time, in_range, time_key. cbn [lex_lt]. intros H1 H2. lia.
Qed.

Lemma time_list_eqb a b : valid_time a = true -> valid_time b = true ->
  list_eqb a b = (time_key a =? time_key b).
Proof.
  destruct a as [|h [|m [|s [|u [|? ?]]]]]; try discriminate.
  destruct b as [|h' [|m' [|s' [|u' [|? ?]]]]]; try discriminate.
  unfold valid_time, in_range, time_key. cbn [list_eqb]. intros H1 H2. lia.
Qed.

Lemma time_lex_le a b : valid_time a = true -> valid_time b = true ->
  lex_le a b = (time_key a <=? time_key b).
Proof.
  intros Ha Hb. unfold lex_le. rewrite time_lex_lt, time_list_eqb by assumption. lia.
Qed.

(* cyclic half-open interval on integers *)
Lemma cyc_open_spec a b x : 0 <= a < day_us -> 0 <= b < day_us -> 0 <= x < day_us ->
  cyc_open day_us a b x = (if a <? b then (a <=? x) && (x <? b) else (a <=? x) || (x <? b)).
Proof.
  unfold cyc_open, day_us. intros Ha Hb Hx.
  destruct (a =? b) eqn:E; destruct (a <? b) eqn:L; cbv iota; lia.
Qed.

(* time-of-day ranges are left-closed/right-open on the circle of one day; they wrap around
   midnight when stop is not after start; equal endpoints mean the whole day *)
Theorem time_contains_spec a b x :
  valid_time a = true -> valid_time b = true -> valid_time x = true ->
  in_range_k KTime (a, b) x = cyc_open day_us (time_key a) (time_key b) (time_key x).
Proof.
  intros Ha Hb Hx. cbn [in_range_k fst snd]. unfold cmp_open.
  rewrite !time_lex_lt, !time_lex_le by assumption.
  pose proof (time_key_range _ Ha). pose proof (time_key_range _ Hb). pose proof (time_key_range _ Hx).
  rewrite cyc_open_spec by assumption. reflexivity.
Qed.

Theorem time_whole_day a x : valid_time a = true -> valid_time x = true ->
  in_range_k KTime (a, a) x = true.
Proof.
  intros Ha Hx. rewrite time_contains_spec by assumption. unfold cyc_open.
  rewrite Z.eqb_refl. pose proof (time_key_range _ Ha). pose proof (time_key_range _ Hx).
  unfold day_us in *. lia.
Qed.

(* ---------- dates: order = order of the day of the (leap) year ---------- *)
Definition all_months : list Z := [1;2;3;4;5;6;7;8;9;10;11;12].
Definition days_upto (n : Z) : list Z := map Z.of_nat (seq 1 (Z.to_nat n)).
Definition all_dates : list (list Z) :=
  flat_map (fun m => map (fun d => [m; d]) (days_upto (days_in_month dummy_year m))) all_months.

Lemma in_days_upto d n : 1 <= d <= n -> In d (days_upto n).
Proof.
  intros H. unfold days_upto. apply in_map_iff. exists (Z.to_nat d). split; [lia|].
  apply in_seq. lia.
Qed.

Lemma valid_date_in l : valid_date l = true -> In l all_dates.
Proof.
  destruct l as [|m [|d [|? ?]]]; try discriminate.
  unfold valid_date, in_range. intros H.
  apply andb_true_iff in H as [Hm Hd].
  unfold all_dates. apply in_flat_map. exists m. split.
  - unfold all_months. assert (1 <= m <= 12) by lia.
    assert (m = 1 \/ m = 2 \/ m = 3 \/ m = 4 \/ m = 5 \/ m = 6 \/ m = 7 \/ m = 8 \/ m = 9 \/ m = 10
            \/ m = 11 \/ m = 12) as C by lia.
    simpl. intuition.
  - apply (in_map (fun d0 => [m; d0])). apply in_days_upto. lia.
Qed.

Lemma date_sweep :
  forallb (fun a => forallb (fun b =>
     Bool.eqb (lex_lt a b) (date_key a <? date_key b) && Bool.eqb (list_eqb a b) (date_key a =? date_key b)
     && (0 <=? date_key a) && (date_key a <? 366)) all_dates) all_dates = true.
Proof. vm_compute. reflexivity. Qed.

Lemma date_facts a b : valid_date a = true -> valid_date b = true ->
  lex_lt a b = (date_key a <? date_key b) /\ list_eqb a b = (date_key a =? date_key b) /\
  0 <= date_key a < 366.
Proof.
  intros Ha Hb. pose proof date_sweep as S.
  rewrite forallb_forall in S. specialize (S a (valid_date_in _ Ha)).
  rewrite forallb_forall in S. specialize (S b (valid_date_in _ Hb)).
  repeat (apply andb_true_iff in S; destruct S as [S ?]).
  apply Bool.eqb_prop in S. apply Bool.eqb_prop in H1. repeat split; auto; lia.
Qed.

Lemma cyc_closed_spec a b x : 0 <= a < 366 -> 0 <= b < 366 -> 0 <= x < 366 ->
  cyc_closed 366 a b x = (if a <=? b then (a <=? x) && (x <=? b) else (a <=? x) || (x <=? b)).
Proof.
  intros Ha Hb Hx. unfold cyc_closed. destruct (a <=? b) eqn:L; cbv iota; lia.
Qed.

(* date ranges are inclusive and wrap around the year end *)
Theorem date_contains_spec a b x :
  valid_date a = true -> valid_date b = true -> valid_date x = true ->
  in_range_k KDate (a, b) x = cyc_closed 366 (date_key a) (date_key b) (date_key x).
Proof.
  intros Ha Hb Hx. cbn [in_range_k fst snd]. unfold cmp_closed, lex_le.
  destruct (date_facts a b Ha Hb) as (L1 & E1 & R1).
  destruct (date_facts a x Ha Hx) as (L2 & E2 & _).
  destruct (date_facts x b Hx Hb) as (L3 & E3 & R3).
  destruct (date_facts b b Hb Hb) as (_ & _ & R2).
  rewrite L1, E1, L2, E2, L3, E3.
  rewrite cyc_closed_spec by lia.
  destruct ((date_key a <? date_key b) || (date_key a =? date_key b)) eqn:C1;
    destruct (date_key a <=? date_key b) eqn:C2; cbv iota; lia.
Qed.

(* date-time ranges never wrap: start >= stop is empty *)
Theorem datetime_never_wraps a b x : lex_le b a = true -> in_range_k KDateTime (a, b) x = false.
Proof.
  cbn [in_range_k fst snd]. unfold cmp_dt, lex_le.
  (* lex order facts on arbitrary integer lists *)
  assert (T : forall p q r, lex_lt p q = true -> lex_lt q r = true -> lex_lt p r = true).
  { induction p as [|x' p IH]; intros [|y q] [|z r]; simpl; try discriminate; auto.
    intros H1 H2.
    destruct (x' <? y) eqn:A1; destruct (y <? z) eqn:A2; simpl in H1, H2.
    - replace (x' <? z) with true by lia. reflexivity.
    - apply andb_true_iff in H2 as [H2 _]. replace (x' <? z) with true by lia. reflexivity.
    - apply andb_true_iff in H1 as [H1 _]. replace (x' <? z) with true by lia. reflexivity.
    - apply andb_true_iff in H1 as [H1 H1']. apply andb_true_iff in H2 as [H2 H2'].
      replace (x' =? z) with true by lia. rewrite (IH _ _ H1' H2'). apply orb_true_r. }
  assert (I : forall p, lex_lt p p = false).
  { induction p as [|x' p IH]; simpl; auto. rewrite IH. lia. }
  assert (E : forall p q, list_eqb p q = true -> p = q).
  { induction p as [|x' p IH]; intros [|y q]; simpl; try discriminate; auto.
    intros H. apply andb_true_iff in H as [H1 H2]. f_equal; [lia|auto]. }
  intros H. destruct (lex_lt a x || list_eqb a x) eqn:A; [|reflexivity].
  destruct (lex_lt x b) eqn:B; [|reflexivity]. exfalso.
  apply orb_true_iff in H. apply orb_true_iff in A.
  assert (lex_lt a b = true) as AB.
  { destruct A as [A|A]; [eapply T; eassumption|apply E in A; subst; assumption]. }
  destruct H as [H|H].
  - pose proof (T _ _ _ AB H) as C. rewrite I in C. discriminate.
  - apply E in H. subst. rewrite I in AB. discriminate.
Qed.

(* ---------- normal form ---------- *)
Lemma pad_length n l : List.length (pad n l) = n.
Proof. revert l. induction n as [|n IH]; intros l; simpl; [reflexivity|]. destruct l; simpl; now rewrite IH. Qed.

Theorem norm_endpoint_full_length k l p : norm_endpoint k l = Some p ->
  List.length p = ep_len k /\
  match k with KTime => valid_time p | KDate => valid_date p | KDateTime => valid_datetime p end = true.
Proof.
  destruct k; unfold norm_endpoint, ep_len; cbv zeta.
  - destruct (Nat.leb 1 (List.length l) && Nat.leb (List.length l) 4)%bool; [|discriminate].
    destruct (valid_time (pad 4 l)) eqn:V; [|discriminate].
    intros H. assert (p = pad 4 l) as -> by congruence. split; [apply pad_length|exact V].
  - destruct (valid_date l) eqn:V; [|discriminate]. intros H; inversion H; subst.
    split; [|exact V]. destruct p as [|? [|? [|? ?]]]; try discriminate. reflexivity.
  - destruct (Nat.leb 5 (List.length l) && Nat.leb (List.length l) 7)%bool; [|discriminate].
    destruct (valid_datetime (pad 7 l)) eqn:V; [|discriminate].
    intros H. assert (p = pad 7 l) as -> by congruence. split; [apply pad_length|exact V].
Qed.

(* feeding a normalised endpoint back gives the same endpoint *)
Lemma pad_full n l : List.length l = n -> pad n l = l.
Proof. revert l. induction n as [|n IH]; intros [|x l]; simpl; try discriminate; auto. intros H. f_equal. apply IH. lia. Qed.

Theorem norm_endpoint_idem k l p : norm_endpoint k l = Some p -> norm_endpoint k p = Some p.
Proof.
  intros H. destruct (norm_endpoint_full_length _ _ _ H) as [L V].
  destruct k; unfold norm_endpoint, ep_len in *; cbv zeta.
  - rewrite L. cbn [Nat.leb andb]. rewrite (pad_full 4 p L), V. reflexivity.
  - rewrite V. reflexivity.
  - rewrite L. cbn [Nat.leb andb]. rewrite (pad_full 7 p L), V. reflexivity.
Qed.

(* ---------- the lexicographic order is a strict order; the normal form is sorted ---------- *)
Lemma lex_lt_trans : forall p q r, lex_lt p q = true -> lex_lt q r = true -> lex_lt p r = true.
Proof.
  induction p as [|x' p IH]; intros [|y q] [|z r]; simpl; try discriminate; auto.
  intros H1 H2.
  destruct (x' <? y) eqn:A1; destruct (y <? z) eqn:A2; simpl in H1, H2.
  - replace (x' <? z) with true by lia. reflexivity.
  - apply andb_true_iff in H2 as [H2 _]. replace (x' <? z) with true by lia. reflexivity.
  - apply andb_true_iff in H1 as [H1 _]. replace (x' <? z) with true by lia. reflexivity.
  - apply andb_true_iff in H1 as [H1 H1']. apply andb_true_iff in H2 as [H2 H2'].
    replace (x' =? z) with true by lia. rewrite (IH _ _ H1' H2'). apply orb_true_r.
Qed.
Lemma lex_lt_irrefl : forall p, lex_lt p p = false.
Proof. induction p as [|x' p IH]; simpl; auto. rewrite IH. lia. Qed.
Lemma list_eqb_eq : forall p q, list_eqb p q = true -> p = q.
Proof.
  induction p as [|x' p IH]; intros [|y q]; simpl; try discriminate; auto.
  intros H. apply andb_true_iff in H as [H1 H2]. f_equal; [lia|auto].
Qed.
Lemma list_eqb_refl : forall p, list_eqb p p = true.
Proof. induction p as [|x' p IH]; simpl; auto. rewrite IH. lia. Qed.

Lemma lex_lt_asym p q : lex_lt p q = true -> lex_lt q p = false.
Proof.
  intros H. destruct (lex_lt q p) eqn:E; [|reflexivity].
  pose proof (lex_lt_trans _ _ _ H E) as C. rewrite lex_lt_irrefl in C. discriminate.
Qed.

Lemma range_lt_asym x y : range_lt x y = true -> range_lt y x = false.
Proof.
  unfold range_lt. intros H. apply orb_true_iff in H. apply orb_false_iff.
  destruct H as [H|H].
  - split; [now apply lex_lt_asym|].
    destruct (list_eqb (fst y) (fst x)) eqn:E; [|reflexivity].
    apply list_eqb_eq in E. rewrite E, lex_lt_irrefl in H. discriminate.
  - apply andb_true_iff in H as [H1 H2]. apply list_eqb_eq in H1. rewrite H1.
    split; [apply lex_lt_irrefl|]. rewrite list_eqb_refl. simpl. now apply lex_lt_asym.
Qed.

Lemma ins_sorted x l : sorted_ranges l = true -> sorted_ranges (ins_range x l) = true.
Proof.
  induction l as [|y r IH]; intros H; [reflexivity|].
  cbn [ins_range]. destruct (range_lt x y) eqn:E.
  - cbn [sorted_ranges]. rewrite (range_lt_asym _ _ E). exact H.
  - destruct r as [|z r'].
    + cbn [ins_range sorted_ranges]. rewrite E. reflexivity.
    + cbn [sorted_ranges] in H. apply andb_true_iff in H as [H1 H2].
      specialize (IH H2). cbn [ins_range] in *. destruct (range_lt x z) eqn:E2.
      * cbn [sorted_ranges] in *. rewrite E. simpl. exact IH.
      * cbn [sorted_ranges] in *. rewrite H1. simpl. exact IH.
Qed.

(* as_list() of every accepted interval is sorted (whatever the notation was) *)
Theorem normal_form_sorted l : sorted_ranges (sort_ranges l) = true.
Proof.
  unfold sort_ranges.
  assert (G : forall l acc, sorted_ranges acc = true ->
              sorted_ranges (fold_left (fun a x => ins_range x a) l acc) = true).
  { induction l0 as [|x r IH]; intros acc H; simpl; [exact H|]. apply IH. now apply ins_sorted. }
  apply G. reflexivity.
Qed.

Theorem model_interval_sorted k i rs : model_interval k i = Some rs -> sorted_ranges rs = true.
Proof.
  destruct i as [n|s]; simpl.
  - unfold normalize. destruct (all_some _); [|discriminate]. intros H; inversion H. apply normal_form_sorted.
  - unfold parse_interval_str. destruct (all_some _); [|discriminate]. intros H; inversion H. apply normal_form_sorted.
Qed.

(* ---------- string rendering read back ---------- *)
(* the six fraction digits denote the microseconds *)
Lemma frac_us_dec_fixed u : 0 <= u <= 999999 -> frac_us (dec_fixed 6 u) = u.
Proof.
  intros H. unfold frac_us.
  assert (L : forall w n, List.length (dec_fixed w n) = w).
  { induction w as [|w IH]; intros n; simpl; [reflexivity|]. rewrite app_length, IH. simpl. lia. }
  rewrite firstn_app, L. replace (6 - 6)%nat with 0%nat by reflexivity.
  rewrite firstn_O, app_nil_r, firstn_all2 by (rewrite L; lia).
  assert (D : forall d, 0 <= d <= 9 -> digit_val (digit_char d) = d).
  { intros d Hd. unfold digit_val, digit_char. rewrite nat_ascii_embedding by lia. lia. }
  assert (N : forall a b acc, num_of (a ++ b) acc = num_of b (num_of a acc)).
  { induction a as [|c a IH]; intros b acc; simpl; auto. }
  cbn [dec_fixed]. rewrite !N. cbn [num_of app].
  rewrite !D by lia. lia.
Qed.

(* every whole second of the day: str(time) parses back to the same time *)
Definition all_hms : list (list Z) :=
  flat_map (fun h => flat_map (fun m => map (fun s => [h; m; s; 0]) (map Z.of_nat (seq 0 60)))
                              (map Z.of_nat (seq 0 60))) (map Z.of_nat (seq 0 24)).
Lemma time_roundtrip_sweep :
  forallb (fun t => match parse_time_str (render_time t) with
                    | Some t' => list_eqb t t' | None => false end) all_hms = true.
Proof. vm_compute. reflexivity. Qed.

Lemma in_zrange x n : 0 <= x < Z.of_nat n -> In x (map Z.of_nat (seq 0 n)).
Proof. intros H. apply in_map_iff. exists (Z.to_nat x). split; [lia|]. apply in_seq. lia. Qed.

Theorem time_string_roundtrip h m s : valid_time [h; m; s; 0] = true ->
  parse_time_str (render_time [h; m; s; 0]) = Some [h; m; s; 0].
Proof.
  intros V. unfold valid_time, in_range in V.
  pose proof time_roundtrip_sweep as S. rewrite forallb_forall in S.
  assert (I : In [h; m; s; 0] all_hms).
  { unfold all_hms. apply in_flat_map. exists h. split; [apply in_zrange; lia|].
    apply in_flat_map. exists m. split; [apply in_zrange; lia|].
    apply (in_map (fun s0 => [h; m; s0; 0])). apply in_zrange. lia. }
  specialize (S _ I). destruct (parse_time_str (render_time [h; m; s; 0])) as [t'|]; [|discriminate].
  apply list_eqb_eq in S. congruence.
Qed.

(* every day of the leap year: 'Mon D' parses back to the same date *)
Lemma date_roundtrip_sweep :
  forallb (fun d => match parse_date_str (render_date d) with
                    | Some d' => list_eqb d d' | None => false end) all_dates = true.
Proof. vm_compute. reflexivity. Qed.

Theorem date_string_roundtrip d : valid_date d = true -> parse_date_str (render_date d) = Some d.
Proof.
  intros V. pose proof date_roundtrip_sweep as S. rewrite forallb_forall in S.
  specialize (S _ (valid_date_in _ V)).
  destruct (parse_date_str (render_date d)) as [d'|]; [|discriminate].
  apply list_eqb_eq in S. congruence.
Qed.

(* all month-name prefixes of >= 3 letters in lower, upper and capitalised spelling *)
Definition name_variants (m : Z) : list (list ascii) :=
  let full := chars (nth (Z.to_nat (m - 1)) month_names ""%string) in
  flat_map (fun n => let p := firstn n full in [p; map lower p; map upper p])
           (seq 3 (List.length full - 2)).
Theorem month_names_any_case :
  forallb (fun m => forallb (fun nm => match name_to_month nm with Some m' => m =? m' | None => false end)
                            (name_variants m)) all_months = true.
Proof. vm_compute. reflexivity. Qed.

(* ---------- str(time) with a fraction: read back for EVERY valid time ---------- *)
Open Scope char_scope.
Definition no_sep (a : list ascii) : bool := forallb (fun c => negb (ch_eqb c "." || ch_eqb c ",")) a.

Lemma split_frac_aux_app a : forall cur ds, no_sep a = true ->
  split_frac_aux (a ++ "." :: ds) cur = (rev cur ++ a, Some ds).
Proof.
  induction a as [|c a IH]; intros cur ds H; simpl.
  - now rewrite app_nil_r.
  - simpl in H. apply andb_true_iff in H as [H1 H2]. apply negb_true_iff in H1. rewrite H1.
    rewrite IH by exact H2. simpl. now rewrite <- app_assoc.
Qed.

Lemma split_frac_app a ds : no_sep a = true -> split_frac (a ++ "." :: ds) = (a, Some ds).
Proof. intros H. unfold split_frac. now rewrite split_frac_aux_app. Qed.

Lemma digit_char_facts d : (0 <= d <= 9)%Z ->
  is_digit (digit_char d) = true /\ is_space (digit_char d) = false /\ digit_val (digit_char d) = d.
Proof.
  intros H.
  assert (d = 0 \/ d = 1 \/ d = 2 \/ d = 3 \/ d = 4 \/ d = 5 \/ d = 6 \/ d = 7 \/ d = 8 \/ d = 9)%Z as C by lia.
  destruct C as [->|[->|[->|[->|[->|[->|[->|[->|[->| ->]]]]]]]]]; vm_compute; auto.
Qed.

Lemma dec_fixed_digits w : forall n, (0 <= n)%Z -> all_digits (dec_fixed w n) = true.
Proof.
  induction w as [|w IH]; intros n Hn; [reflexivity|]. cbn [dec_fixed]. unfold all_digits in *.
  rewrite forallb_app. rewrite IH by (apply Z.div_pos; lia). cbn [forallb andb].
  destruct (digit_char_facts (n mod 10)) as [D _]; [lia|]. now rewrite D.
Qed.

Lemma dec_fixed_len w n : List.length (dec_fixed w n) = w.
Proof. revert n. induction w as [|w IH]; intros n; [reflexivity|]. cbn [dec_fixed]. rewrite app_length, IH. simpl. lia. Qed.

(* strip leaves a text alone whose first and last characters are not blank *)
Lemma strip_id c m z : is_space c = false -> is_space z = false -> strip (c :: m ++ [z]) = c :: m ++ [z].
Proof.
  intros Hc Hz. unfold strip. cbn [lstrip]. rewrite Hc.
  assert (R1 : rev (c :: m ++ [z]) = z :: rev m ++ [c]).
  { cbn [rev]. rewrite rev_app_distr. reflexivity. }
  rewrite R1. cbn [lstrip]. rewrite Hz.
  cbn [rev]. rewrite rev_app_distr, rev_involutive. reflexivity.
Qed.

(* the whole-second part: everything the parser needs to know about HH:MM:SS, for all 86 400
   values (finite sweep) *)
Definition render_hms (h m s : Z) : list ascii :=
  dec_fixed 2 h ++ [":"] ++ dec_fixed 2 m ++ [":"] ++ dec_fixed 2 s.
Definition hms_ok (t : list Z) : bool :=
  match t with
  | [h; m; s; _] =>
      let a := render_hms h m s in
      match a with
      | c :: _ => negb (is_space c) && negb (ch_eqb c "T") &&
                  no_sep a &&
                  match split_char ":" a with
                  | [x; y; z] => field_ok true x && field_ok true y && field_ok true z &&
                                 (num_of x 0 =? h)%Z && (num_of y 0 =? m)%Z && (num_of z 0 =? s)%Z
                  | _ => false
                  end
      | [] => false
      end
  | _ => false
  end.
Lemma hms_sweep : forallb hms_ok all_hms = true.
Proof. vm_compute. reflexivity. Qed.

Lemma iso_core_three main ds hh mm ss :
  split_char ":" main = [hh; mm; ss] ->
  field_ok true hh = true -> field_ok true mm = true -> field_ok true ss = true ->
  all_digits ds = true -> ds <> [] ->
  iso_core main (Some ds) = mk_time (num_of hh 0) (num_of mm 0) (num_of ss 0) (frac_us ds).
Proof.
  intros Hs H1 H2 H3 Hd Hn. unfold iso_core. cbn [frac_ok_iso frac_val]. rewrite Hd.
  assert (Nat.eqb (List.length ds) 0 = false) as -> by (destruct ds; [congruence|reflexivity]).
  cbn [negb andb]. rewrite Hs, H1, H2, H3. reflexivity.
Qed.

Theorem time_string_roundtrip_full h m s u : valid_time [h; m; s; u] = true ->
  parse_time_str (render_time [h; m; s; u]) = Some [h; m; s; u].
Proof.
  intros V. destruct (u =? 0)%Z eqn:U.
  - apply Z.eqb_eq in U. subst u. now apply time_string_roundtrip.
  - pose proof V as V'. unfold valid_time, in_range in V'.
    assert (Hu : (0 < u <= 999999)%Z) by lia.
    (* facts about the whole-second part, from the sweep *)
    pose proof hms_sweep as S. rewrite forallb_forall in S.
    assert (I : In [h; m; s; 0%Z] all_hms).
    { unfold all_hms. apply in_flat_map. exists h. split; [apply in_zrange; lia|].
      apply in_flat_map. exists m. split; [apply in_zrange; lia|].
      apply (in_map (fun s0 => [h; m; s0; 0%Z])). apply in_zrange. lia. }
    specialize (S _ I). unfold hms_ok in S.
    set (a := render_hms h m s) in *.
    destruct a as [|c a'] eqn:Ea; [discriminate|].
    apply andb_true_iff in S as [S SD]. apply andb_true_iff in S as [S SC].
    apply andb_true_iff in S as [SA SB].
    destruct (split_char ":" (c :: a')) as [|x [|y [|z [|? ?]]]] eqn:Sp; try discriminate.
    apply andb_true_iff in SD as [SD Es]. apply andb_true_iff in SD as [SD Em].
    apply andb_true_iff in SD as [SD Eh]. apply andb_true_iff in SD as [SD Fz].
    apply andb_true_iff in SD as [Fx Fy].
    apply negb_true_iff in SA. apply negb_true_iff in SB.
    apply Z.eqb_eq in Eh, Em, Es.
    (* the rendering *)
    assert (R : render_time [h; m; s; u] = (c :: a') ++ "." :: dec_fixed 6 u).
    { unfold render_time. rewrite U. rewrite <- Ea. unfold a, render_hms. rewrite <- !app_assoc. reflexivity. }
    (* last character *)
    assert (L : dec_fixed 6 u = dec_fixed 5 (u / 10) ++ [digit_char (u mod 10)]) by reflexivity.
    destruct (digit_char_facts (u mod 10)) as (_ & Zs & _); [lia|].
    unfold parse_time_str. rewrite R.
    assert (St : strip ((c :: a') ++ "." :: dec_fixed 6 u) = (c :: a') ++ "." :: dec_fixed 6 u).
    { rewrite L. change ((c :: a') ++ "." :: dec_fixed 5 (u / 10) ++ [digit_char (u mod 10)])
        with (c :: (a' ++ "." :: dec_fixed 5 (u / 10) ++ [digit_char (u mod 10)])).
      replace (a' ++ "." :: dec_fixed 5 (u / 10) ++ [digit_char (u mod 10)])
        with ((a' ++ "." :: dec_fixed 5 (u / 10)) ++ [digit_char (u mod 10)])
        by (rewrite <- app_assoc; reflexivity).
      apply strip_id; assumption. }
    rewrite St. unfold parse_time_iso.
    assert (Dt : drop_t ((c :: a') ++ "." :: dec_fixed 6 u) = (c :: a') ++ "." :: dec_fixed 6 u).
    { cbn [app drop_t]. destruct c as [b0 b1 b2 b3 b4 b5 b6 b7].
      destruct b0, b1, b2, b3, b4, b5, b6, b7; try reflexivity. vm_compute in SB. discriminate SB. }
    rewrite Dt, split_frac_app by exact SC.
    rewrite (iso_core_three (c :: a') (dec_fixed 6 u) x y z Sp Fx Fy Fz).
    + rewrite Eh, Em, Es, frac_us_dec_fixed by lia.
      unfold mk_time. now rewrite V.
    + apply dec_fixed_digits. lia.
    + intros E. pose proof (dec_fixed_len 6 u) as Ln. rewrite E in Ln. discriminate Ln.
Qed.
