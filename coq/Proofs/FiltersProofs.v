From Verif Require Import Values Filters.
From Coq Require Import Qabs.
Open Scope Z_scope.

(* ---------- pipeline ---------- *)
Lemma pipeline_app fs gs d :
  pipeline (fs ++ gs) d =
  match pipeline fs d with Ok (Some d') => pipeline gs d' | x => x end.
Proof.
  revert d. induction fs as [|f r IH]; intros d; simpl; [reflexivity|].
  destruct (f d); auto.
Qed.

Lemma pipeline_all_pass fs d :
  Forall (fun f => f d = FPass) fs -> pipeline fs d = Ok (Some d).
Proof. induction 1 as [|f r Hf _ IH]; simpl; [reflexivity|]. now rewrite Hf. Qed.

(* the first false result ends the pipeline, whatever follows *)
Lemma pipeline_first_reject pre f post d d1 :
  pipeline pre d = Ok (Some d1) -> f d1 = FReject -> pipeline (pre ++ f :: post) d = Ok None.
Proof. intros H1 H2. rewrite pipeline_app, H1. simpl. now rewrite H2. Qed.

(* a mapping result replaces the data seen by every later filter and by the destination *)
Lemma pipeline_replace pre f post d d1 d2 :
  pipeline pre d = Ok (Some d1) -> f d1 = FReplace d2 ->
  pipeline (pre ++ f :: post) d = pipeline post d2.
Proof. intros H1 H2. rewrite pipeline_app, H1. simpl. now rewrite H2. Qed.

Lemma pipeline_pass pre f post d d1 :
  pipeline pre d = Ok (Some d1) -> f d1 = FPass ->
  pipeline (pre ++ f :: post) d = pipeline post d1.
Proof. intros H1 H2. rewrite pipeline_app, H1. simpl. now rewrite H2. Qed.

(* ---------- Edge ---------- *)
Theorem edge_truth_table c p v :
  edge_pass c p v = true <->
  (p = VUndef /\ truthy v = true /\ eff_urise c = true) \/
  (p = VUndef /\ truthy v = false /\ e_ufall c = true) \/
  (p <> VUndef /\ truthy p = false /\ truthy v = true /\ e_rise c = true) \/
  (p <> VUndef /\ truthy p = true /\ truthy v = false /\ e_fall c = true).
Proof.
  assert (D : p = VUndef \/ p <> VUndef) by (destruct p; (left; reflexivity) || (right; discriminate)).
  destruct D as [->|Hne].
  - simpl. destruct (truthy v); intuition congruence.
  - assert (E : edge_pass c p v =
               if truthy v then negb (truthy p) && e_rise c else truthy p && e_fall c)
      by (destruct p; try reflexivity; congruence).
    rewrite E. destruct (truthy v), (truthy p), (e_rise c), (e_fall c); simpl; intuition congruence.
Qed.

Theorem edge_urise_default c : e_urise c = None -> eff_urise c = e_rise c.
Proof. unfold eff_urise. now intros ->. Qed.

Theorem edge_missing_item c d :
  dget d "value" = None \/ dget d "previous" = None -> edge c d = FRaise EKey.
Proof. unfold edge. intros [H|H]; rewrite H; [reflexivity|]. now destruct (dget d "value"). Qed.

Theorem not_from_undef_spec d :
  not_from_undef d = FReject <-> (dget d "previous" = None \/ dget d "previous" = Some VUndef).
Proof.
  unfold not_from_undef. destruct (dget d "previous") as [[]|]; split; intros H; auto;
    try discriminate; destruct H; discriminate.
Qed.

Theorem not_from_undef_else_pass d : not_from_undef d = FReject \/ not_from_undef d = FPass.
Proof. unfold not_from_undef. destruct (dget d "previous") as [[]|]; auto. Qed.

(* ---------- Delta ---------- *)
Theorem delta_run_satisfies_monitor delta vs : forall last,
  delta_monitor delta last vs (delta_run delta last vs) = true.
Proof.
  induction vs as [|v r IH]; intros last; simpl; [reflexivity|].
  unfold delta_step. destruct last as [l|]; simpl.
  - destruct (qabs_ge l v delta) eqn:E; simpl; rewrite ?E; simpl; apply IH.
  - apply IH.
Qed.

Theorem delta_monitor_unique delta vs : forall last ps,
  delta_monitor delta last vs ps = true -> ps = delta_run delta last vs.
Proof.
  induction vs as [|v r IH]; intros last ps; destruct ps as [|p ps']; simpl; try discriminate;
    [reflexivity|].
  intros H. apply andb_true_iff in H as [H1 H2]. apply Bool.eqb_prop in H1.
  unfold delta_step. destruct last as [l|].
  - destruct (qabs_ge l v delta) eqn:E; subst p; simpl; f_equal; now apply IH.
  - subst p. simpl. f_equal. now apply IH.
Qed.

(* the state kept by the filter is always the last PASSED value *)
Fixpoint last_passed (last : option Q) (vs : list Q) (ps : list bool) : option Q :=
  match vs, ps with
  | v :: r, p :: r' => last_passed (if p then Some v else last) r r'
  | _, _ => last
  end.
Fixpoint delta_state (delta : Q) (last : option Q) (vs : list Q) : option Q :=
  match vs with [] => last | v :: r => delta_state delta (snd (delta_step delta last v)) r end.
Theorem delta_state_is_last_passed delta vs : forall last,
  delta_state delta last vs = last_passed last vs (delta_run delta last vs).
Proof.
  induction vs as [|v r IH]; intros last; simpl; [reflexivity|].
  unfold delta_step. destruct last as [l|]; simpl.
  - destruct (qabs_ge l v delta); simpl; apply IH.
  - apply IH.
Qed.

(* ---------- IfOutput / IfNotInitialized ---------- *)
Theorem if_output_spec o d :
  (truthy o = true -> if_output o d = FReplace d) /\ (truthy o = false -> if_output o d = FReject).
Proof. unfold if_output. split; intros ->; reflexivity. Qed.

Theorem if_not_initialized_spec o d :
  (o = VUndef -> if_not_initialized o d = FReplace d) /\
  (o <> VUndef -> if_not_initialized o d = FReject).
Proof. split; intros H; [now subst|]. destruct o; try reflexivity. congruence. Qed.

(* ---------- DataEdit: every operation is the dictionary operation of its documentation ---------- *)
Lemma str_in_cons k a l : str_in k (a :: l) = String.eqb k a || str_in k l.
Proof. reflexivity. Qed.

Lemma dget_fold_ddel ks : forall d k,
  dget (fold_left ddel ks d) k = if str_in k ks then None else dget d k.
Proof.
  induction ks as [|a r IH]; intros d k; simpl; [reflexivity|].
  rewrite IH. unfold str_in at 2. simpl. fold (str_in k r).
  destruct (str_in k r); [now rewrite orb_true_r|]. rewrite orb_false_r.
  destruct (String.eqb k a) eqn:E.
  - apply String.eqb_eq in E. subst. apply dget_ddel_same.
  - apply dget_ddel_other. now apply String.eqb_neq.
Qed.

Theorem op_delete_spec ks d k :
  de_apply (OpDelete ks) d = DOk (fold_left ddel ks d) /\
  dget (fold_left ddel ks d) k = if str_in k ks then None else dget d k.
Proof. split; [reflexivity|apply dget_fold_ddel]. Qed.

Lemma dget_filter_permit ks d k :
  dget (filter (fun kv => str_in (fst kv) ks) d) k = if str_in k ks then dget d k else None.
Proof.
  induction d as [|[k' v] r IH]; simpl; [now destruct (str_in k ks)|].
  destruct (str_in k' ks) eqn:E; simpl.
  - destruct (String.eqb k k') eqn:E2; [|exact IH].
    apply String.eqb_eq in E2. subst. now rewrite E.
  - rewrite IH. destruct (String.eqb k k') eqn:E2; [|reflexivity].
    apply String.eqb_eq in E2. subst. now rewrite E.
Qed.

Theorem op_permit_spec ks d k :
  exists d', de_apply (OpPermit ks) d = DOk d' /\
             dget d' k = if str_in k ks then dget d k else None.
Proof. eexists. split; [reflexivity|apply dget_filter_permit]. Qed.

Lemma dget_fold_add kvs : forall d k,
  dget (fold_left (fun acc kv => dset acc (fst kv) (snd kv)) kvs d) k =
  match dget (rev kvs) k with Some v => Some v | None => dget d k end.
Proof.
  induction kvs as [|[a v] r IH]; intros d k; simpl; [reflexivity|].
  rewrite IH. clear IH.
  assert (G : forall l, dget (l ++ [(a, v)]) k =
                        match dget l k with Some x => Some x | None => if String.eqb k a then Some v else None end).
  { induction l as [|[k' v'] l IHl]; simpl; [reflexivity|]. destruct (String.eqb k k'); auto. }
  rewrite G. destruct (dget (rev r) k); [reflexivity|].
  destruct (String.eqb k a) eqn:E.
  - apply String.eqb_eq in E. subst. apply dget_dset_same.
  - apply dget_dset_other. now apply String.eqb_neq.
Qed.

(* add: listed keys get the new value (the last one given wins), others are untouched *)
Theorem op_add_spec kvs d k :
  exists d', de_apply (OpAdd kvs) d = DOk d' /\
             dget d' k = match dget (rev kvs) k with Some v => Some v | None => dget d k end.
Proof. eexists. split; [reflexivity|apply dget_fold_add]. Qed.

Lemma dget_fold_setdefault kvs : forall d k,
  dget (fold_left (fun acc kv => if dmem acc (fst kv) then acc else dset acc (fst kv) (snd kv)) kvs d) k =
  match dget d k with Some v => Some v | None => dget kvs k end.
Proof.
  induction kvs as [|[a v] r IH]; intros d k; simpl.
  - now destruct (dget d k).
  - rewrite IH. clear IH. unfold dmem.
    destruct (dget d a) as [va|] eqn:Ea.
    + destruct (dget d k) eqn:Ek; [reflexivity|].
      destruct (String.eqb k a) eqn:E; [|reflexivity].
      apply String.eqb_eq in E. subst. congruence.
    + destruct (String.eqb k a) eqn:E.
      * apply String.eqb_eq in E. subst. rewrite dget_dset_same, Ea. reflexivity.
      * rewrite dget_dset_other by (now apply String.eqb_neq). reflexivity.
Qed.

(* setdefault: existing keys are kept, missing ones are added *)
Theorem op_setdefault_spec kvs d k :
  exists d', de_apply (OpSetdefault kvs) d = DOk d' /\
             dget d' k = match dget d k with Some v => Some v | None => dget kvs k end.
Proof. eexists. split; [reflexivity|apply dget_fold_setdefault]. Qed.

Theorem op_copy_spec s t d :
  match dget d s with
  | None => de_apply (OpCopy s t) d = DErr EKey
  | Some v => exists d', de_apply (OpCopy s t) d = DOk d' /\
                         dget d' t = Some v /\ forall k, k <> t -> dget d' k = dget d k
  end.
Proof.
  simpl. destruct (dget d s) as [v|]; [|reflexivity].
  eexists. split; [reflexivity|]. split; [apply dget_dset_same|].
  intros k Hk. now apply dget_dset_other.
Qed.

Theorem op_rename_spec s t d :
  match dget d s with
  | None => de_apply (OpRename s t) d = DErr EKey
  | Some v => exists d', de_apply (OpRename s t) d = DOk d' /\
                         dget d' s = None /\
                         (t <> s -> dget d' t = Some v) /\
                         forall k, k <> t -> k <> s -> dget d' k = dget d k
  end.
Proof.
  simpl. destruct (dget d s) as [v|]; [|reflexivity].
  eexists. split; [reflexivity|]. split; [apply dget_ddel_same|]. split.
  - intros H. rewrite dget_ddel_other by exact H. apply dget_dset_same.
  - intros k H1 H2. rewrite dget_ddel_other by exact H2. now apply dget_dset_other.
Qed.

Theorem op_modify_spec k f d :
  match dget d k with
  | None => de_apply (OpModify k f) d = DErr EKey
  | Some v =>
      match apply_mfun f v with
      | MReject => de_apply (OpModify k f) d = DReject
      | MDelete => exists d', de_apply (OpModify k f) d = DOk d' /\ dget d' k = None /\
                              forall k2, k2 <> k -> dget d' k2 = dget d k2
      | MVal v' => exists d', de_apply (OpModify k f) d = DOk d' /\ dget d' k = Some v' /\
                              forall k2, k2 <> k -> dget d' k2 = dget d k2
      end
  end.
Proof.
  simpl. destruct (dget d k) as [v|]; [|reflexivity].
  destruct (apply_mfun f v); [| |reflexivity].
  - eexists. split; [reflexivity|]. split; [apply dget_dset_same|]. intros; now apply dget_dset_other.
  - eexists. split; [reflexivity|]. split; [apply dget_ddel_same|]. intros; now apply dget_ddel_other.
Qed.

Theorem op_add_output_spec k o d :
  exists d', de_apply (OpAddOutput k o) d = DOk d' /\ dget d' k = Some o /\
             forall k2, k2 <> k -> dget d' k2 = dget d k2.
Proof.
  eexists. split; [reflexivity|]. split; [apply dget_dset_same|]. intros; now apply dget_dset_other.
Qed.

(* every chain = its operations applied left to right, stopping at a rejection or an error *)
Theorem dataedit_chain_app a b d :
  de_chain (a ++ b) d =
  match de_chain a d with DOk d' => de_chain b d' | x => x end.
Proof.
  revert d. induction a as [|o r IH]; intros d; simpl; [reflexivity|].
  destruct (de_apply o d); auto.
Qed.

Theorem dataedit_empty_chain d : dataedit [] d = FReplace d.
Proof. reflexivity. Qed.

(* ---------- link: agreement with the model implies the Delta monitor ---------- *)
Lemma blist_eqb_eq a : forall b, blist_eqb a b = true -> a = b.
Proof.
  induction a as [|x a IH]; destruct b as [|y b]; simpl; intros H; try discriminate; [reflexivity|].
  apply andb_true_iff in H as [H1 H2]. apply Bool.eqb_prop in H1. subst. f_equal. now apply IH.
Qed.

Theorem delta_agree_implies_monitor c : dcase_agree c = true -> dcase_monitor c = true.
Proof.
  unfold dcase_agree, dcase_monitor. intros H. apply blist_eqb_eq in H. rewrite <- H.
  apply delta_run_satisfies_monitor.
Qed.

Theorem send_sets_source src fs d :
  send src fs d = pipeline fs (dset d "source" (VStr src)) /\
  dget (dset d "source" (VStr src)) "source" = Some (VStr src).
Proof. split; [reflexivity|apply dget_dset_same]. Qed.
