From Verif Require Import Values Duration.
From Coq Require Import DecimalPos DecimalN DecimalString.
Open Scope list_scope.
Open Scope string_scope.

(* ---------- decimal strings ---------- *)
Fixpoint all_digits (s : string) : bool :=
  match s with EmptyString => true | String c r => is_digit c && all_digits r end.

Lemma string_of_uint_digits u : all_digits (NilEmpty.string_of_uint u) = true.
Proof. induction u; simpl; try reflexivity; exact IHu. Qed.

Lemma N2s_digits n : all_digits (N2s n) = true.
Proof. apply string_of_uint_digits. Qed.

Lemma N2s_nonempty n : N2s n <> "".
Proof.
  unfold N2s. destruct n as [|p]; simpl; [discriminate|].
  pose proof (DecimalPos.Unsigned.to_uint_nonnil p) as H.
  destruct (Pos.to_uint p); simpl; try discriminate. congruence.
Qed.

Lemma N_of_digits_N2s n : N_of_digits (N2s n) = Some n.
Proof.
  unfold N_of_digits, N2s. rewrite NilEmpty.usu. simpl.
  now rewrite DecimalN.Unsigned.of_to.
Qed.

Definition head_not_digit (r : string) : Prop :=
  match r with EmptyString => True | String c _ => is_digit c = false end.

Lemma span_digits_app s r :
  all_digits s = true -> head_not_digit r -> span_digits (s ++ r) = (s, r).
Proof.
  induction s as [|c s IH]; simpl; intros Hd Hr.
  - destruct r as [|c r]; [reflexivity|]. simpl in *. now rewrite Hr.
  - apply andb_true_iff in Hd as [Hc Hs]. rewrite Hc, (IH Hs Hr). reflexivity.
Qed.

Definition mkint (n : N) : num := {| n_int := n; n_frac := None |}.

(* reading a rendered integer that is followed by a unit letter (or by nothing) *)
Lemma read_num_N2s n c rest :
  is_digit c = false -> Ascii.eqb c "." = false -> Ascii.eqb c "," = false ->
  read_num (N2s n ++ String c rest) = Some (mkint n, String c rest).
Proof.
  intros Hd H1 H2. unfold read_num.
  rewrite (span_digits_app (N2s n) (String c rest) (N2s_digits n)) by exact Hd.
  pose proof (N2s_nonempty n) as Hne. destruct (N2s n) eqn:E; [congruence|]. rewrite <- E.
  rewrite N_of_digits_N2s, H1, H2. reflexivity.
Qed.

(* ---------- characters ---------- *)
Lemma digit_not_ws c : is_digit c = true -> is_ws c = false.
Proof. destruct c as [[] [] [] [] [] [] [] []]; vm_compute; intros; congruence. Qed.

Lemma unit_char c j : trad_unit c = Some j ->
  is_digit c = false /\ is_ws c = false /\ Ascii.eqb c "." = false /\ Ascii.eqb c "," = false.
Proof. destruct c as [[] [] [] [] [] [] [] []]; vm_compute; intros H; try discriminate; auto. Qed.

Lemma skip_ws_nonws c r : is_ws c = false -> skip_ws (String c r) = String c r.
Proof. intros H. simpl. now rewrite H. Qed.

Lemma skip_ws_N2s n r : skip_ws (N2s n ++ r) = N2s n ++ r.
Proof.
  pose proof (N2s_nonempty n) as Hne. pose proof (N2s_digits n) as Hd.
  destruct (N2s n) as [|c s]; [congruence|]. simpl in Hd. apply andb_true_iff in Hd as [Hc _].
  simpl. now rewrite (digit_not_ws c Hc).
Qed.

(* one group "<number><unit letter>" of the traditional format *)
Lemma parse_step f n c rest idx acc j :
  trad_unit c = Some j -> (idx <= j)%nat ->
  parse_trad (S f) (N2s n ++ String c rest) idx acc =
  parse_trad f rest (S j) (acc ++ [(j, mkint n)])%list.
Proof.
  intros Hu Hle. destruct (unit_char c j Hu) as (Hd & Hw & H1 & H2).
  cbn [parse_trad]. rewrite skip_ws_N2s.
  pose proof (N2s_nonempty n) as Hne.
  destruct (N2s n ++ String c rest) eqn:E.
  { destruct (N2s n); [congruence|discriminate]. }
  rewrite <- E. rewrite (read_num_N2s n c rest Hd H1 H2).
  rewrite (skip_ws_nonws c rest Hw). rewrite Hu.
  apply Nat.leb_le in Hle. now rewrite Hle.
Qed.

Lemma parse_end f idx acc : parse_trad (S f) "" idx acc = Some acc.
Proof. reflexivity. Qed.

(* ---------- exact arithmetic on small integers ---------- *)
Open Scope Z_scope.
Lemma to_double_int q : Qden q = 1%positive -> 0 <= Qnum q < 2 ^ 53 -> to_double q = q.
Proof.
  intros Hd [H1 H2]. unfold to_double, is_small_int. rewrite Hd.
  apply Z.leb_le in H1. apply Z.ltb_lt in H2. now rewrite H1, H2.
Qed.

Definition scaleZ (u : nat) : Z :=
  match u with 0%nat => 1 | 1%nat => 60 | 2%nat => 3600 | 3%nat => 86400 | _ => 0 end.
Definition gval (g : nat * num) : Z := Z.of_N (n_int (snd g)) * scaleZ (fst g).
Definition gsum (gs : list (nat * num)) : Z := fold_right (fun g a => gval g + a) 0 gs.
Definition int_group (g : nat * num) : Prop := n_frac (snd g) = None /\ (fst g <= 3)%nat.

Lemma scale_scaleZ u : (u <= 3)%nat -> scale u = Some (inject_Z (scaleZ u)).
Proof. intros H. do 4 (destruct u as [|u]; [reflexivity|]). lia. Qed.

Lemma sum_groups_int gs : forall smallest rz,
  Forall int_group gs -> (gs <> [] \/ smallest = false) ->
  0 <= rz -> rz + gsum gs < 2 ^ 53 ->
  exists q, sum_groups gs smallest (rz # 1) = Ok q /\ (q == inject_Z (rz + gsum gs))%Q.
Proof.
  induction gs as [|[u x] r IH]; intros smallest rz HF Hne H0 Hb.
  - destruct Hne as [Hne|Hs]; [congruence|]. subst. simpl. eexists. split; [reflexivity|].
    unfold gsum. simpl. rewrite Z.add_0_r. reflexivity.
  - inversion HF as [|? ? [Hf Hu] HF']; subst. simpl in Hf, Hu.
    assert (Hg : 0 <= gval (u, x)).
    { unfold gval. simpl. apply Z.mul_nonneg_nonneg; [apply N2Z.is_nonneg|].
      do 4 (destruct u as [|u]; [simpl; lia|]). simpl. lia. }
    assert (Hr : 0 <= gsum r).
    { clear -HF'. induction HF' as [|[u' x'] l [_ Hu'] _ IHl]; [unfold gsum; simpl; lia|].
      unfold gsum in *. simpl. unfold gval at 1. simpl.
      assert (0 <= Z.of_N (n_int x') * scaleZ u').
      { apply Z.mul_nonneg_nonneg; [apply N2Z.is_nonneg|].
        do 4 (destruct u' as [|u']; [simpl; lia|]). simpl. lia. }
      lia. }
    change (gsum ((u, x) :: r)) with (gval (u, x) + gsum r) in *.
    cbn [sum_groups]. rewrite Hf.
    assert (Hv : num_value x = inject_Z (Z.of_N (n_int x))) by (unfold num_value; now rewrite Hf).
    rewrite Hv.
    assert (Hs : scaleZ u >= 1) by (do 4 (destruct u as [|u]; [simpl; lia|]); lia).
    assert (Hx : 0 <= Z.of_N (n_int x) < 2 ^ 53).
    { split; [apply N2Z.is_nonneg|]. unfold gval in *. simpl in *. nia. }
    rewrite (to_double_int (inject_Z (Z.of_N (n_int x)))); [|reflexivity|exact Hx].
    destruct (Qeq_bool (inject_Z (Z.of_N (n_int x))) 0) eqn:Ez.
    + apply Qeq_bool_iff in Ez. unfold Qeq in Ez. simpl in Ez.
      assert (Z0 : Z.of_N (n_int x) = 0) by lia.
      destruct (IH false rz HF' (or_intror eq_refl) H0) as (q & Hq & Hqe).
      { unfold gval in Hb. simpl in Hb. rewrite Z0 in Hb. lia. }
      exists q. split; [exact Hq|]. rewrite Hqe. unfold gval. simpl. rewrite Z0. simpl. reflexivity.
    + rewrite (scale_scaleZ u Hu).
      unfold fmul.
      assert (M : (inject_Z (Z.of_N (n_int x)) * inject_Z (scaleZ u))%Q = (gval (u, x) # 1)).
      { unfold gval, Qmult, inject_Z. simpl. reflexivity. }
      rewrite M. rewrite (to_double_int (gval (u, x) # 1)); [|reflexivity|simpl; lia].
      unfold fadd.
      assert (A : ((rz # 1) + (gval (u, x) # 1))%Q = ((rz * 1 + gval (u, x) * 1) # 1)) by reflexivity.
      rewrite A. rewrite to_double_int; [|reflexivity|simpl; lia].
      destruct (IH false (rz * 1 + gval (u, x) * 1) HF' (or_intror eq_refl)) as (q & Hq & Hqe); [lia|lia|].
      exists q. split; [exact Hq|]. rewrite Hqe. unfold Qeq. simpl. lia.
Qed.
Close Scope Z_scope.

(* ---------- fuel and lengths ---------- *)
Lemma parse_trad_mono f : forall s idx acc r,
  parse_trad f s idx acc = Some r -> forall f', (f <= f')%nat -> parse_trad f' s idx acc = Some r.
Proof.
  induction f as [|f IH]; intros s idx acc r H f' Hle; [discriminate|].
  destruct f' as [|f']; [lia|]. cbn [parse_trad] in *.
  destruct (skip_ws s); [exact H|].
  destruct (read_num (String a s0)) as [[x r0]|]; [|discriminate].
  destruct (skip_ws r0) as [|c r2]; [exact H|].
  destruct (trad_unit c) as [j|]; [|discriminate].
  destruct (Nat.leb idx j); [|discriminate].
  eapply IH; [exact H|lia].
Qed.

Lemma length_app a b : String.length (a ++ b) = (String.length a + String.length b)%nat.
Proof. induction a as [|c a IH]; simpl; [reflexivity|now rewrite IH]. Qed.

Lemma sapp_assoc a b c : (a ++ b) ++ c = a ++ (b ++ c).
Proof. induction a as [|x a IH]; simpl; [reflexivity|now rewrite IH]. Qed.

Lemma N2s_length n : (1 <= String.length (N2s n))%nat.
Proof. pose proof (N2s_nonempty n). destruct (N2s n); [congruence|simpl; lia]. Qed.

Lemma convert_of_groups s gs q :
  parse_trad (S (String.length s)) s 0 [] = Some gs ->
  sum_groups (trad_to_rev gs) true 0 = Ok q -> convert s = Ok q.
Proof. intros H1 H2. unfold convert. now rewrite H1. Qed.

Lemma trad_unit_d : trad_unit "d" = Some 0%nat. Proof. reflexivity. Qed.
Lemma trad_unit_h : trad_unit "h" = Some 1%nat. Proof. reflexivity. Qed.
Lemma trad_unit_m : trad_unit "m" = Some 2%nat. Proof. reflexivity. Qed.
Lemma trad_unit_s : trad_unit "s" = Some 3%nat. Proof. reflexivity. Qed.

Lemma int_groups_ok l : Forall int_group (map (fun uv => (fst uv, mkint (snd uv))) l) <->
                         Forall (fun uv => (fst uv <= 3)%nat) l.
Proof.
  induction l as [|[u v] l IH]; simpl; split; intros H; constructor; inversion H; subst;
    try (apply IH; assumption).
  - destruct H2. assumption.
  - split; [reflexivity|assumption].
Qed.

(* timestr() is the inverse of convert() for integers, exactly (below 2^53 seconds, where
   every intermediate value is an exactly representable double) *)
Theorem timestr_inverse_int n : (0 <= n < 2 ^ 53)%Z ->
  exists s q, timestr_int n = Ok s /\ convert s = Ok q /\ (q == inject_Z n)%Q.
Proof.
  intros [H0 Hb]. unfold timestr_int.
  destruct (n <? 0)%Z eqn:En; [apply Z.ltb_lt in En; lia|].
  set (d := (n / 86400)%Z). set (s1 := (n mod 86400)%Z).
  set (h := (s1 / 3600)%Z). set (s2 := (s1 mod 3600)%Z).
  set (m := (s2 / 60)%Z). set (sc := (s2 mod 60)%Z).
  assert (R : (0 <= d /\ 0 <= h /\ 0 <= m /\ 0 <= sc /\
               n = 86400 * d + 3600 * h + 60 * m + sc)%Z).
  { subst d s1 h s2 m sc.
    pose proof (Z.div_mod n 86400 ltac:(lia)). pose proof (Z.mod_pos_bound n 86400 ltac:(lia)).
    pose proof (Z.div_mod (n mod 86400) 3600 ltac:(lia)).
    pose proof (Z.mod_pos_bound (n mod 86400) 3600 ltac:(lia)).
    pose proof (Z.div_mod ((n mod 86400) mod 3600) 60 ltac:(lia)).
    pose proof (Z.mod_pos_bound ((n mod 86400) mod 3600) 60 ltac:(lia)).
    pose proof (Z.div_pos n 86400 ltac:(lia) ltac:(lia)).
    pose proof (Z.div_pos (n mod 86400) 3600 ltac:(lia) ltac:(lia)).
    pose proof (Z.div_pos ((n mod 86400) mod 3600) 60 ltac:(lia) ltac:(lia)).
    lia. }
  destruct R as (Hd & Hh & Hm & Hs & Hn).
  assert (SUM : forall gs,
    Forall (fun uv => (fst uv <= 3)%nat) gs ->
    gsum (map (fun uv => (fst uv, mkint (snd uv))) gs) = n ->
    gs <> [] ->
    exists q, sum_groups (map (fun uv => (fst uv, mkint (snd uv))) gs) true 0 = Ok q /\ (q == inject_Z n)%Q).
  { intros gs HF Hg Hne.
    destruct (sum_groups_int (map (fun uv => (fst uv, mkint (snd uv))) gs) true 0%Z) as (q & Hq & Hqe).
    - now apply int_groups_ok.
    - left. destruct gs; [congruence|discriminate].
    - lia.
    - rewrite Hg. lia.
    - exists q. split; [exact Hq|]. rewrite Hqe, Hg. reflexivity. }
  unfold parts.
  destruct (d =? 0)%Z eqn:Ed; [apply Z.eqb_eq in Ed|apply Z.eqb_neq in Ed].
  - destruct (h =? 0)%Z eqn:Eh; [apply Z.eqb_eq in Eh|apply Z.eqb_neq in Eh]; simpl.
    + (* "MmSs" *)
      set (str := N2s (Z.to_N m) ++ String "m" (N2s (Z.to_N sc) ++ "s")).
      destruct (SUM [(0%nat, Z.to_N sc); (1%nat, Z.to_N m)]) as (q & Hq & Hqe).
      { repeat constructor; simpl; lia. }
      { unfold gsum, gval. simpl. rewrite !Z2N.id by lia. lia. }
      { discriminate. }
      exists str, q. split; [reflexivity|]. split; [|exact Hqe].
      apply (convert_of_groups str [(2%nat, mkint (Z.to_N m)); (3%nat, mkint (Z.to_N sc))]); [|exact Hq].
      apply (parse_trad_mono 3); [|unfold str; rewrite length_app; simpl; rewrite length_app; simpl;
        pose proof (N2s_length (Z.to_N m)); pose proof (N2s_length (Z.to_N sc)); lia].
      unfold str. rewrite (parse_step 2 _ "m" _ 0 [] 2 trad_unit_m) by lia.
      change (N2s (Z.to_N sc) ++ "s") with (N2s (Z.to_N sc) ++ String "s" "").
      rewrite (parse_step 1 _ "s" _ 3 _ 3 trad_unit_s) by lia. reflexivity.
    + (* "HhMmSs" *)
      set (str := N2s (Z.to_N h) ++ String "h" (N2s (Z.to_N m) ++ String "m" (N2s (Z.to_N sc) ++ "s"))).
      destruct (SUM [(0%nat, Z.to_N sc); (1%nat, Z.to_N m); (2%nat, Z.to_N h)]) as (q & Hq & Hqe).
      { repeat constructor; simpl; lia. }
      { unfold gsum, gval. simpl. rewrite !Z2N.id by lia. lia. }
      { discriminate. }
      exists str, q. split; [unfold str; rewrite sapp_assoc; reflexivity|]. split; [|exact Hqe].
      apply (convert_of_groups str [(1%nat, mkint (Z.to_N h)); (2%nat, mkint (Z.to_N m));
                                    (3%nat, mkint (Z.to_N sc))]); [|exact Hq].
      apply (parse_trad_mono 4); [|unfold str; rewrite length_app; simpl; rewrite length_app; simpl;
        rewrite length_app; simpl;
        pose proof (N2s_length (Z.to_N h)); pose proof (N2s_length (Z.to_N m));
        pose proof (N2s_length (Z.to_N sc)); lia].
      unfold str. rewrite (parse_step 3 _ "h" _ 0 [] 1 trad_unit_h) by lia.
      rewrite (parse_step 2 _ "m" _ 2 _ 2 trad_unit_m) by lia.
      change (N2s (Z.to_N sc) ++ "s") with (N2s (Z.to_N sc) ++ String "s" "").
      rewrite (parse_step 1 _ "s" _ 3 _ 3 trad_unit_s) by lia. reflexivity.
  - (* "DdHhMmSs" *)
    simpl.
    set (str := N2s (Z.to_N d) ++ String "d" (N2s (Z.to_N h) ++ String "h"
                 (N2s (Z.to_N m) ++ String "m" (N2s (Z.to_N sc) ++ "s")))).
    destruct (SUM [(0%nat, Z.to_N sc); (1%nat, Z.to_N m); (2%nat, Z.to_N h); (3%nat, Z.to_N d)])
      as (q & Hq & Hqe).
    { repeat constructor; simpl; lia. }
    { unfold gsum, gval. simpl. rewrite !Z2N.id by lia. lia. }
    { discriminate. }
    exists str, q. split; [unfold str; rewrite !sapp_assoc; reflexivity|]. split; [|exact Hqe].
    apply (convert_of_groups str [(0%nat, mkint (Z.to_N d)); (1%nat, mkint (Z.to_N h));
                                  (2%nat, mkint (Z.to_N m)); (3%nat, mkint (Z.to_N sc))]); [|exact Hq].
    apply (parse_trad_mono 5); [|unfold str; rewrite length_app; simpl; rewrite length_app; simpl;
      rewrite length_app; simpl; rewrite length_app; simpl;
      pose proof (N2s_length (Z.to_N d)); pose proof (N2s_length (Z.to_N h));
      pose proof (N2s_length (Z.to_N m)); pose proof (N2s_length (Z.to_N sc)); lia].
    unfold str. rewrite (parse_step 4 _ "d" _ 0 [] 0 trad_unit_d) by lia.
    rewrite (parse_step 3 _ "h" _ 1 _ 1 trad_unit_h) by lia.
    rewrite (parse_step 2 _ "m" _ 2 _ 2 trad_unit_m) by lia.
    change (N2s (Z.to_N sc) ++ "s") with (N2s (Z.to_N sc) ++ String "s" "").
    rewrite (parse_step 1 _ "s" _ 3 _ 3 trad_unit_s) by lia. reflexivity.
Qed.

(* ---------- every style of the traditional format (integers) ---------- *)
Fixpoint all_ws (s : string) : bool :=
  match s with EmptyString => true | String c r => is_ws c && all_ws r end.

Lemma skip_ws_app w s : all_ws w = true -> skip_ws (w ++ s) = skip_ws s.
Proof.
  induction w as [|c w IH]; simpl; intros H; [reflexivity|].
  apply andb_true_iff in H as [Hc Hw]. rewrite Hc. now apply IH.
Qed.
Lemma skip_ws_all w : all_ws w = true -> skip_ws w = "".
Proof.
  induction w as [|c w IH]; simpl; intros H; [reflexivity|].
  apply andb_true_iff in H as [Hc Hw]. rewrite Hc. now apply IH.
Qed.

Lemma ws_char c : is_ws c = true ->
  is_digit c = false /\ Ascii.eqb c "." = false /\ Ascii.eqb c "," = false.
Proof. destruct c as [[] [] [] [] [] [] [] []]; vm_compute; intros H; try discriminate; auto. Qed.

(* a rendered integer followed by white space and a unit letter *)
Lemma read_num_N2s_ws n w c rest j :
  all_ws w = true -> trad_unit c = Some j ->
  read_num (N2s n ++ (w ++ String c rest)) = Some (mkint n, w ++ String c rest).
Proof.
  intros Hw Hu. destruct (unit_char c j Hu) as (Hd & _ & H1 & H2).
  destruct w as [|x w].
  - simpl. now apply read_num_N2s.
  - simpl in Hw. apply andb_true_iff in Hw as [Hx _].
    destruct (ws_char x Hx) as (A & B & C). simpl. now apply read_num_N2s.
Qed.

Record rgroup := { rg_pre : string; rg_n : N; rg_mid : string; rg_unit : ascii }.
Fixpoint render (gs : list rgroup) (tail : string) : string :=
  match gs with
  | [] => tail
  | g :: r => rg_pre g ++ (N2s (rg_n g) ++ (rg_mid g ++ String (rg_unit g) (render r tail)))
  end.
Definition unit_index (g : rgroup) : nat :=
  match trad_unit (rg_unit g) with Some j => j | None => 0 end.
(* white space only where allowed; units in the order d < h < m < s, any letter case *)
Fixpoint units_ok (idx : nat) (gs : list rgroup) : bool :=
  match gs with
  | [] => true
  | g :: r => all_ws (rg_pre g) && all_ws (rg_mid g) &&
              match trad_unit (rg_unit g) with
              | Some j => Nat.leb idx j && units_ok (S j) r
              | None => false
              end
  end.

Theorem parse_rendered gs : forall idx acc tail f,
  units_ok idx gs = true -> all_ws tail = true -> (List.length gs < f)%nat ->
  parse_trad f (render gs tail) idx acc =
  Some (acc ++ map (fun g => (unit_index g, mkint (rg_n g))) gs)%list.
Proof.
  induction gs as [|g r IH]; intros idx acc tail f Hok Ht Hf.
  - destruct f as [|f]; [simpl in Hf; lia|]. simpl. rewrite (skip_ws_all tail Ht).
    now rewrite app_nil_r.
  - destruct f as [|f]; [simpl in Hf; lia|].
    simpl in Hok. apply andb_true_iff in Hok as [Hok H3]. apply andb_true_iff in Hok as [H1 H2].
    destruct (trad_unit (rg_unit g)) as [j|] eqn:Hu; [|discriminate].
    apply andb_true_iff in H3 as [Hle Hrest].
    destruct (unit_char _ _ Hu) as (Hd & Hw & _ & _).
    cbn [render parse_trad]. rewrite (skip_ws_app _ _ H1), skip_ws_N2s.
    pose proof (N2s_nonempty (rg_n g)) as Hne.
    destruct (N2s (rg_n g) ++ rg_mid g ++ String (rg_unit g) (render r tail)) eqn:E.
    { destruct (N2s (rg_n g)); [congruence|discriminate]. }
    rewrite <- E. rewrite (read_num_N2s_ws _ _ _ _ j H2 Hu).
    rewrite (skip_ws_app _ _ H2), (skip_ws_nonws _ _ Hw), Hu, Hle.
    rewrite (IH (S j) _ tail f Hrest Ht) by (simpl in Hf; lia).
    rewrite <- app_assoc. simpl. unfold unit_index. now rewrite Hu.
Qed.

Lemma render_length gs tail : (List.length gs <= String.length (render gs tail))%nat.
Proof.
  induction gs as [|g r IH]; simpl; [lia|].
  rewrite !length_app. simpl. pose proof (N2s_length (rg_n g)). lia.
Qed.

Lemma unit_index_le3 g : (unit_index g <= 3)%nat.
Proof.
  unfold unit_index, trad_unit.
  repeat match goal with |- context [if ?b then _ else _] => destruct b end; lia.
Qed.

Definition groups_value (gs : list rgroup) : Z :=
  fold_right (fun g a => (Z.of_N (rg_n g) * scaleZ (3 - unit_index g) + a)%Z) 0%Z gs.

Lemma gsum_rev_app a b : gsum (a ++ b) = (gsum a + gsum b)%Z.
Proof. induction a as [|x a IH]; simpl; [reflexivity|]. unfold gsum in *. simpl. rewrite IH. lia. Qed.

(* convert() of ANY such string is the documented unit arithmetic: day 86400, hour 3600,
   minute 60 - for every subset of units, letter case and white space *)
Theorem convert_unit_arith gs tail :
  gs <> [] -> units_ok 0 gs = true -> all_ws tail = true -> (groups_value gs < 2 ^ 53)%Z ->
  exists q, convert (render gs tail) = Ok q /\ (q == inject_Z (groups_value gs))%Q.
Proof.
  intros Hne Hok Ht Hb.
  pose proof (parse_rendered gs 0 [] tail (S (String.length (render gs tail))) Hok Ht) as P.
  unfold convert.
  rewrite P by (pose proof (render_length gs tail); lia). clear P.
  set (tg := map (fun g => (unit_index g, mkint (rg_n g))) gs).
  assert (G : gsum (trad_to_rev tg) = groups_value gs).
  { unfold trad_to_rev, tg. clear. induction gs as [|g r IH]; [reflexivity|].
    cbn [map rev]. rewrite gsum_rev_app, IH.
    unfold gsum, gval. cbn [fold_right fst snd mkint n_int].
    change (groups_value (g :: r)) with (Z.of_N (rg_n g) * scaleZ (3 - unit_index g) + groups_value r)%Z. lia. }
  assert (F : Forall int_group (trad_to_rev tg)).
  { unfold trad_to_rev, tg. apply Forall_rev. rewrite map_map. apply Forall_forall.
    intros x Hx. apply in_map_iff in Hx as (g & <- & _). split; [reflexivity|]. cbn [fst]. apply Nat.le_sub_l. }
  destruct (sum_groups_int (trad_to_rev tg) true 0%Z F) as (q & Hq & Hqe).
  - left. unfold trad_to_rev, tg. destruct gs; [congruence|]. simpl.
    intros C. apply app_eq_nil in C as [_ C]. discriminate.
  - lia.
  - rewrite G. lia.
  - exists q. cbn [app]. split; [exact Hq|]. now rewrite Hqe, G.
Qed.

(* ---------- malformed input is an error, never a number ---------- *)
Theorem nothing_present_rejected r : sum_groups [] true r = Err EValue.
Proof. reflexivity. Qed.

Theorem fraction_in_larger_unit_rejected u x fr rest r :
  n_frac x = Some fr -> sum_groups ((u, x) :: rest) false r = Err EValue.
Proof. intros H. simpl. now rewrite H. Qed.

Theorem calendar_units_rejected u x rest sm r :
  (4 <= u)%nat -> n_frac x = None -> Qeq_bool (to_double (num_value x)) 0 = false ->
  sum_groups ((u, x) :: rest) sm r = Err EValue.
Proof.
  intros Hu Hf Hz. simpl. rewrite Hf, Hz.
  do 4 (destruct u as [|u]; [lia|]). destruct sm; reflexivity.
Qed.

Theorem time_period_spec :
  time_period PNone = Ok None /\
  (forall z, (z < 0)%Z -> (-(2^53) < z)%Z -> time_period (PInt z) = Ok (Some 0%Q)) /\
  (forall q, Qle_bool 0 q = false -> time_period (PFloat q) = Ok (Some 0%Q)) /\
  (forall q, Qle_bool 0 q = true -> time_period (PFloat q) = Ok (Some q)) /\
  time_period POther = Err EType.
Proof.
  repeat split; try reflexivity.
  - intros z Hz Hl. unfold time_period, to_double, is_small_int. simpl.
    assert (E1 : (0 <=? z)%Z = false) by (apply Z.leb_gt; lia). rewrite E1. simpl.
    assert (E2 : Qle_bool (inject_Z z) 0 = true) by (apply Qle_bool_iff; unfold Qle; simpl; lia).
    rewrite E2.
    assert (E3 : Qeq_bool (inject_Z z) 0 = false).
    { destruct (Qeq_bool (inject_Z z) 0) eqn:E; [|reflexivity].
      apply Qeq_bool_iff in E. unfold Qeq in E. simpl in E. lia. }
    rewrite E3.
    assert (E4 : Qle_bool 0 (inject_Z z) = false).
    { destruct (Qle_bool 0 (inject_Z z)) eqn:E; [|reflexivity].
      apply Qle_bool_iff in E. unfold Qle in E. simpl in E. lia. }
    now rewrite E4.
  - intros q H. simpl. now rewrite H.
  - intros q H. simpl. now rewrite H.
Qed.
