From Verif Require Import Values Init.
Open Scope list_scope.
Open Scope Z_scope.

(* ---- the asynchronous phase never lasts longer than the largest init_timeout ---- *)
Lemma run_tasks_bound l : forall now fin m,
  now <= m -> (forall t, In t l -> snd (fst t) <= m) ->
  fst (run_tasks l now fin) <= m.
Proof.
  induction l as [|[[b tmo] sc] r IH]; intros now fin m Hn Hl; simpl; [exact Hn|].
  assert (Ht : tmo <= m) by (apply (Hl (b, tmo, sc)); now left).
  assert (Hr : forall t, In t r -> snd (fst t) <= m) by (intros t Ht'; apply Hl; now right).
  destruct (done_time sc) as [d|].
  - destruct (d <=? now) eqn:E1; [now apply IH|].
    destruct (d <=? tmo) eqn:E2.
    + apply IH; [|exact Hr]. apply Z.leb_le in E2. lia.
    + apply IH; [|exact Hr]. lia.
  - apply IH; [|exact Hr]. lia.
Qed.

Lemma ins_task_in x l t : In t (ins_task x l) -> t = x \/ In t l.
Proof.
  induction l as [|y r IH]; simpl.
  - intros [H|[]]; now left.
  - destruct (snd (fst y) <? snd (fst x)); simpl.
    + intros [H|[H|H]]; auto.
    + intros [H|H]; auto. destruct (IH H); auto.
Qed.

Lemma sort_tasks_in l : forall acc t, In t (fold_left (fun a x => ins_task x a) l acc) -> In t l \/ In t acc.
Proof.
  induction l as [|x r IH]; simpl; intros acc t H; [now right|].
  destruct (IH _ _ H) as [H1|H1]; [now left; right|].
  destruct (ins_task_in _ _ _ H1); [left; left; congruence|now right].
Qed.

Lemma max_timeout_ge T : forall m sp, In sp T ->
  forall t sc, is_async sp = Some (t, sc) ->
  t <= fold_left (fun m sp => match is_async sp with Some (t, _) => Z.max m t | None => m end) T m.
Proof.
  assert (Mono : forall T m, m <= fold_left (fun m sp => match is_async sp with Some (t, _) => Z.max m t | None => m end) T m).
  { induction T0 as [|a T0 IH]; intros m; simpl; [lia|].
    destruct (is_async a) as [[t ?]|]; [etransitivity; [|apply IH]; lia|apply IH]. }
  induction T as [|a T IH]; intros m sp [].
  - subst a. intros t sc E. simpl. rewrite E. etransitivity; [|apply Mono]. lia.
  - intros t sc E. simpl. eapply IH; eassumption.
Qed.

Lemma async_started_in T s t : In t (async_started T s) ->
  exists sc', is_async (spec_of T (fst (fst t))) = Some (snd (fst t), sc') /\ (fst (fst t) < List.length T)%nat
    /\ 0 < snd (fst t) /\ inited s (fst (fst t)) = false.
Proof.
  unfold async_started. rewrite in_flat_map. intros (b & Hb & H).
  apply in_seq in Hb.
  destruct (is_async (spec_of T b)) as [[tmo sc]|] eqn:E; [|destruct H].
  destruct (negb (inited s b) && (0 <? tmo)) eqn:G; [|destruct H].
  destruct H as [H|[]]. subst t. simpl. exists sc. rewrite E.
  apply andb_true_iff in G as [G1 G2]. apply Z.ltb_lt in G2. apply negb_true_iff in G1.
  repeat split; auto. lia.
Qed.

(* never waited for longer than the largest init_timeout *)
Theorem async_wait_bound T s : snd (async_phase T s) <= max_timeout T.
Proof.
  unfold async_phase.
  destruct (run_tasks (sort_tasks (async_started T s)) 0 []) as [tend fin] eqn:E. simpl.
  change tend with (fst (tend, fin)). rewrite <- E.
  apply run_tasks_bound.
  - unfold max_timeout.
    assert (Mono : forall T m, m <= fold_left (fun m sp => match is_async sp with Some (t, _) => Z.max m t | None => m end) T m).
    { induction T0 as [|a T0 IH]; intros m; simpl; [lia|].
      destruct (is_async a) as [[t ?]|]; [etransitivity; [|apply IH]; lia|apply IH]. }
    apply Mono.
  - intros t Ht. unfold sort_tasks in Ht. apply sort_tasks_in in Ht. destruct Ht as [Ht|[]].
    apply async_started_in in Ht as (sc & Ha & Hlt & _).
    unfold max_timeout. eapply max_timeout_ge; [|exact Ha].
    unfold spec_of. apply nth_In. exact Hlt.
Qed.

(* the asynchronous routine is used only for blocks that are still uninitialised and have a
   positive init_timeout *)
Theorem async_only_if T s t : In t (async_started T s) ->
  inited s (fst (fst t)) = false /\ 0 < snd (fst t).
Proof. intros H. apply async_started_in in H as (sc & _ & _ & A & B). auto. Qed.

(* no task is cancelled before its own timeout: a task that would finish within its timeout
   always finishes *)
Theorem finishes_within_timeout l : forall now fin b tmo d sc,
  In (b, tmo, sc) l -> done_time sc = Some d -> d <= tmo ->
  In (d, b, sc) (snd (run_tasks l now fin)).
Proof.
  assert (Keep : forall l now fin x, In x fin -> In x (snd (run_tasks l now fin))).
  { induction l0 as [|[[b tmo] sc] r IH]; intros now fin x Hx; simpl; [exact Hx|].
    destruct (done_time sc) as [d|]; [|now apply IH].
    destruct (d <=? now); [apply IH; apply in_or_app; now left|].
    destruct (d <=? tmo); [apply IH; apply in_or_app; now left|now apply IH]. }
  induction l as [|[[b' tmo'] sc'] r IH]; intros now fin b tmo d sc [] Hd Hle.
  - inversion H; subst. simpl. rewrite Hd.
    destruct (d <=? now); [apply Keep; apply in_or_app; right; now left|].
    apply Z.leb_le in Hle. rewrite Hle. apply Keep; apply in_or_app; right; now left.
  - simpl. destruct (done_time sc') as [d'|]; [|eapply IH; eassumption].
    destruct (d' <=? now); [eapply IH; eassumption|].
    destruct (d' <=? tmo'); eapply IH; eassumption.
Qed.

(* ---- the step machine: restore, regular, from_value run at most once per block, in this order ---- *)
Inductive tag := TR | TG | TF.
Definition tag_of (b : nat) (c : call) : option tag :=
  match c with
  | CRestore x => if Nat.eqb x b then Some TR else None
  | CRegular x => if Nat.eqb x b then Some TG else None
  | CFromValue x => if Nat.eqb x b then Some TF else None
  | _ => None
  end.
Fixpoint proj (b : nat) (l : list call) : list tag :=
  match l with
  | [] => []
  | c :: r => match tag_of b c with Some t => t :: proj b r | None => proj b r end
  end.
Lemma proj_app b l1 l2 : proj b (l1 ++ l2) = proj b l1 ++ proj b l2.
Proof. induction l1 as [|c r IH]; simpl; [reflexivity|]. destruct (tag_of b c); simpl; now rewrite IH. Qed.

Definition allowed (st : Z) (p : list tag) : Prop :=
  (st = 0 /\ p = []) \/
  ((st = -1 \/ st = 1) /\ (p = [] \/ p = [TR])) \/
  ((st = -2 \/ st = 2) /\ (p = [TG] \/ p = [TR; TG] \/ p = [TG; TF] \/ p = [TR; TG; TF])).

Definition P (s : istate) : Prop := forall b, allowed (steps s b) (proj b (ilog s)).
Definition FrameX (x : option nat) (s s' : istate) : Prop :=
  forall c, x <> Some c -> steps s c < 0 -> steps s' c = steps s c /\ proj c (ilog s') = proj c (ilog s).
Definition Good (s s' : istate) : Prop := (P s -> P s') /\ FrameX None s s'.

Lemma FrameX_weaken x s s' : FrameX None s s' -> FrameX x s s'.
Proof. intros H c _ Hc. apply H; [discriminate|exact Hc]. Qed.
Lemma FrameX_refl x s : FrameX x s s.
Proof. intros c _ _. auto. Qed.
Lemma FrameX_trans x s1 s2 s3 : FrameX x s1 s2 -> FrameX x s2 s3 -> FrameX x s1 s3.
Proof.
  intros A B c Hx Hc. destruct (A c Hx Hc) as [A1 A2].
  destruct (B c Hx) as [B1 B2]; [lia|]. split; congruence.
Qed.
Lemma Good_refl s : Good s s.
Proof. split; [auto|apply FrameX_refl]. Qed.
Lemma Good_trans s1 s2 s3 : Good s1 s2 -> Good s2 s3 -> Good s1 s3.
Proof. intros [A1 A2] [B1 B2]. split; [auto|eapply FrameX_trans; eassumption]. Qed.
Lemma Good_set_err s : Good s (set_err s).
Proof. split; [auto|intros c _ _; auto]. Qed.
Lemma Good_set_inited s b : Good s (set_inited s b).
Proof. split; [auto|intros c _ _; auto]. Qed.
Lemma Good_set_exn s : Good s (set_exn s).
Proof. split; [auto|intros c _ _; auto]. Qed.
Lemma Good_clear_exn s : Good s (clear_exn s).
Proof. split; [auto|intros c _ _; auto]. Qed.
Lemma Good_set_active s b v : Good s (set_active s b v).
Proof. split; [auto|intros c _ _; auto]. Qed.
Lemma Good_handler s b : Good s (add_log s (CHandler b)).
Proof.
  split.
  - intros H c. specialize (H c). simpl. rewrite proj_app. simpl. now rewrite app_nil_r.
  - intros c _ _. simpl. rewrite proj_app. simpl. now rewrite app_nil_r.
Qed.

Definition Loc (b : nat) (v : Z) (p : list tag) (s : istate) : Prop :=
  P s /\ steps s b = v /\ proj b (ilog s) = p.

Lemma fupd_same {A} (f : nat -> A) i v : fupd f i v i = v.
Proof. unfold fupd. now rewrite Nat.eqb_refl. Qed.
Lemma fupd_other {A} (f : nat -> A) i v k : k <> i -> fupd f i v k = f k.
Proof. unfold fupd. intros H. apply Nat.eqb_neq in H. now rewrite H. Qed.

Lemma Loc_set_steps b v p s v' : Loc b v p s -> allowed v' p -> Loc b v' p (set_steps s b v').
Proof.
  intros (HP & Hv & Hp) Ha. repeat split; simpl; [|apply fupd_same|exact Hp].
  intros c. simpl. destruct (Nat.eq_dec c b) as [->|N].
  - rewrite fupd_same, Hp. exact Ha.
  - rewrite fupd_other by exact N. apply HP.
Qed.

Lemma tag_of_other b c cl t : tag_of b cl = Some t -> c <> b -> tag_of c cl = None.
Proof.
  destruct cl as [x|x|x|x|x]; simpl; try discriminate;
    destruct (Nat.eqb x b) eqn:E; try discriminate; apply Nat.eqb_eq in E; subst x;
    intros _ N; apply not_eq_sym in N; apply Nat.eqb_neq in N; now rewrite N.
Qed.

Lemma Loc_add_log b v p s cl t : Loc b v p s -> tag_of b cl = Some t -> allowed v (p ++ [t]) ->
  Loc b v (p ++ [t]) (add_log s cl).
Proof.
  intros (HP & Hv & Hp) Ht Ha. repeat split; simpl; [|exact Hv|rewrite proj_app; simpl; rewrite Ht, Hp; reflexivity].
  intros c. simpl. rewrite proj_app. simpl. destruct (Nat.eq_dec c b) as [->|N].
  - rewrite Ht, Hp, Hv. exact Ha.
  - rewrite (tag_of_other _ _ _ _ Ht N), app_nil_r. apply HP.
Qed.

Lemma Loc_steps_log b v p s v' cl t : Loc b v p s -> tag_of b cl = Some t -> allowed v' (p ++ [t]) ->
  Loc b v' (p ++ [t]) (add_log (set_steps s b v') cl).
Proof.
  intros (HP & Hv & Hp) Ht Ha.
  repeat split; simpl; [|apply fupd_same|rewrite proj_app; simpl; rewrite Ht, Hp; reflexivity].
  intros c. simpl. rewrite proj_app. simpl. destruct (Nat.eq_dec c b) as [->|N].
  - rewrite Ht, Hp, fupd_same. exact Ha.
  - rewrite (tag_of_other _ _ _ _ Ht N), app_nil_r, fupd_other by exact N. apply HP.
Qed.

Lemma Loc_good b v p s s' : Loc b v p s -> v < 0 -> Good s s' -> Loc b v p s'.
Proof.
  intros (HP & Hv & Hp) Hneg [G1 G2]. destruct (G2 b) as [A B]; [discriminate|lia|].
  repeat split; [auto|congruence|congruence].
Qed.

Lemma FrameX_set_steps b s v : FrameX (Some b) s (set_steps s b v).
Proof.
  intros c Hx _. simpl. split; [|reflexivity]. apply fupd_other. intros ->. now apply Hx.
Qed.
Lemma FrameX_add_log b s cl t : tag_of b cl = Some t -> FrameX (Some b) s (add_log s cl).
Proof.
  intros Ht c Hx _. simpl. split; [reflexivity|]. rewrite proj_app. simpl.
  rewrite (tag_of_other _ _ _ _ Ht); [now rewrite app_nil_r|]. intros ->. now apply Hx.
Qed.
Lemma FrameX_set_err x s : FrameX x s (set_err s).
Proof. intros c _ _; auto. Qed.
Lemma FrameX_set_exn x s : FrameX x s (set_exn s).
Proof. intros c _ _; auto. Qed.
Lemma FrameX_clear_exn x s : FrameX x s (clear_exn s).
Proof. intros c _ _; auto. Qed.

Ltac ftr := eapply FrameX_trans.

(* the second half of init_sblock, started from a state where b has completed step 1 *)
Definition regular_half f T b s1 : istate :=
  let s2 := add_log (set_steps s1 b (-2)) (CRegular b) in
  let s3 := match is_regular (spec_of T b) with
            | GNoEffect => s2 | GSets => set_output f T s2 b | GRaises => set_exn s2 end in
  if halt s3 then s3 else
  let s4 := if negb (inited s3 b) && is_initdef (spec_of T b)
            then set_output f T (add_log s3 (CFromValue b)) b else s3 in
  if halt s4 then s4 else set_steps s4 b 2.

Lemma regular_frame f T b s1 (IH : forall s, Good s (set_output f T s b)) :
  FrameX (Some b) s1 (regular_half f T b s1).
Proof.
  unfold regular_half. cbv zeta.
  assert (TG_ : tag_of b (CRegular b) = Some TG) by (simpl; now rewrite Nat.eqb_refl).
  assert (TF_ : tag_of b (CFromValue b) = Some TF) by (simpl; now rewrite Nat.eqb_refl).
  set (s2 := add_log (set_steps s1 b (-2)) (CRegular b)).
  assert (F2 : FrameX (Some b) s1 s2).
  { ftr; [apply FrameX_set_steps|eapply FrameX_add_log; exact TG_]. }
  set (s3 := match is_regular (spec_of T b) with
            | GNoEffect => s2 | GSets => set_output f T s2 b | GRaises => set_exn s2 end).
  assert (F3 : FrameX (Some b) s1 s3).
  { subst s3. destruct (is_regular _); [exact F2| |].
    - ftr; [exact F2|apply FrameX_weaken, IH].
    - ftr; [exact F2|apply FrameX_set_exn]. }
  destruct (halt s3) eqn:E3; [exact F3|].
  destruct (negb (inited s3 b) && is_initdef (spec_of T b)); [|rewrite E3].
  - assert (F5 : FrameX (Some b) s1 (set_output f T (add_log s3 (CFromValue b)) b)).
    { ftr; [exact F3|]. ftr; [eapply FrameX_add_log; exact TF_|apply FrameX_weaken, IH]. }
    destruct (halt (set_output f T (add_log s3 (CFromValue b)) b)); [exact F5|]. ftr; [exact F5|apply FrameX_set_steps].
  - ftr; [exact F3|apply FrameX_set_steps].
Qed.

Lemma regular_P f T b s1 p (IH : forall s, Good s (set_output f T s b)) :
  Loc b 1 p s1 -> (p = [] \/ p = [TR]) -> P (regular_half f T b s1).
Proof.
  intros HL Hp. unfold regular_half. cbv zeta.
  assert (TG_ : tag_of b (CRegular b) = Some TG) by (simpl; now rewrite Nat.eqb_refl).
  assert (TF_ : tag_of b (CFromValue b) = Some TF) by (simpl; now rewrite Nat.eqb_refl).
  set (s2 := add_log (set_steps s1 b (-2)) (CRegular b)).
  assert (L2 : Loc b (-2) (p ++ [TG]) s2).
  { eapply Loc_steps_log; [exact HL|exact TG_|].
    right; right. split; [now left|]. destruct Hp as [->| ->]; simpl; auto. }
  set (s3 := match is_regular (spec_of T b) with
            | GNoEffect => s2 | GSets => set_output f T s2 b | GRaises => set_exn s2 end).
  assert (L3 : Loc b (-2) (p ++ [TG]) s3).
  { subst s3. destruct (is_regular _); [exact L2| |].
    - eapply Loc_good; [exact L2|lia|apply IH].
    - eapply Loc_good; [exact L2|lia|apply Good_set_exn]. }
  destruct (halt s3) eqn:E3; [apply L3|].
  destruct (negb (inited s3 b) && is_initdef (spec_of T b)); [|rewrite E3].
  - assert (L4 : Loc b (-2) ((p ++ [TG]) ++ [TF]) (add_log s3 (CFromValue b))).
    { apply Loc_add_log; [exact L3|exact TF_|]. right; right. split; [now left|].
      destruct Hp as [->| ->]; simpl; auto. }
    assert (L5 : Loc b (-2) ((p ++ [TG]) ++ [TF]) (set_output f T (add_log s3 (CFromValue b)) b))
      by (eapply Loc_good; [exact L4|lia|apply IH]).
    destruct (halt (set_output f T (add_log s3 (CFromValue b)) b)); [apply L5|].
    eapply Loc_set_steps; [exact L5|]. right; right. split; [now right|].
    destruct Hp as [->| ->]; simpl; auto.
  - eapply Loc_set_steps; [exact L3|]. right; right. split; [now right|].
    destruct Hp as [->| ->]; simpl; auto.
Qed.

Lemma FrameX_to_None b s s' : 0 <= steps s b -> FrameX (Some b) s s' -> FrameX None s s'.
Proof.
  intros Hb H c _ Hc. apply H; [|exact Hc]. intros E; inversion E; subst. lia.
Qed.

Lemma fold_good {A} (g : istate -> A -> istate) (l : list A) :
  (forall s a, Good s (g s a)) -> forall s, Good s (fold_left g l s).
Proof.
  intros Hg. induction l as [|a r IH]; intros s; simpl; [apply Good_refl|].
  eapply Good_trans; [apply Hg|apply IH].
Qed.

Definition first_half f T b s : istate :=
  if steps s b =? 0 then
    let s' := set_steps s b (-1) in
    let s'' :=
      if is_persistent (spec_of T b) then
        match is_restore (spec_of T b) with
        | RAbsent => s'
        | RRaises => add_log s' (CRestore b)
        | RNoEffect => add_log s' (CRestore b)
        | RSets => clear_exn (set_output f T (add_log s' (CRestore b)) b)
        end
      else s' in
    if ierr s'' then s'' else set_steps s'' b 1
  else s.

Lemma init_sblock_eq f T s b full :
  init_sblock (S f) T s b full =
  if halt s then s else
  if halt (first_half f T b s) then first_half f T b s else
  if (steps s b =? 1) || ((steps s b =? 0) && full) then regular_half f T b (first_half f T b s)
  else first_half f T b s.
Proof. reflexivity. Qed.

Lemma first_frame f T b s (IH : forall s, Good s (set_output f T s b)) :
  FrameX (Some b) s (first_half f T b s).
Proof.
  unfold first_half. destruct (steps s b =? 0); [|apply FrameX_refl]. cbv zeta.
  assert (TR_ : tag_of b (CRestore b) = Some TR) by (simpl; now rewrite Nat.eqb_refl).
  set (s' := set_steps s b (-1)).
  assert (Fs' : FrameX (Some b) s s') by apply FrameX_set_steps.
  assert (Fa : FrameX (Some b) s (add_log s' (CRestore b)))
    by (ftr; [exact Fs'|eapply FrameX_add_log; exact TR_]).
  set (s'' := if is_persistent (spec_of T b) then _ else s').
  assert (F'' : FrameX (Some b) s s'').
  { subst s''. destruct (is_persistent _); [|exact Fs'].
    destruct (is_restore _); try assumption.
    ftr; [exact Fa|]. ftr; [apply FrameX_weaken, IH|apply FrameX_clear_exn]. }
  destruct (ierr s''); [exact F''|]. ftr; [exact F''|apply FrameX_set_steps].
Qed.

(* after the first half of a block with no completed step: either the run is over, or step 1 is complete *)
Lemma first_P f T b s (IH : forall s, Good s (set_output f T s b)) :
  P s -> steps s b = 0 ->
  P (first_half f T b s) /\
  (halt (first_half f T b s) = false ->
   exists p, (p = [] \/ p = [TR]) /\ Loc b 1 p (first_half f T b s)).
Proof.
  intros HP E0. unfold first_half. rewrite E0. cbn [Z.eqb]. cbv zeta.
  assert (TR_ : tag_of b (CRestore b) = Some TR) by (simpl; now rewrite Nat.eqb_refl).
  set (s' := set_steps s b (-1)).
  set (s'' := if is_persistent (spec_of T b) then _ else s').
  assert (L0 : Loc b 0 [] s).
  { repeat split; auto. specialize (HP b). rewrite E0 in HP.
    destruct HP as [[_ H]|[[[H|H] _]|[[H|H] _]]]; try discriminate; exact H. }
  assert (L' : Loc b (-1) [] s')
    by (eapply Loc_set_steps; [exact L0|right; left; split; auto]).
  assert (La : Loc b (-1) ([] ++ [TR]) (add_log s' (CRestore b)))
    by (apply Loc_add_log; [exact L'|exact TR_|right; left; split; auto]).
  assert (L'' : exists p, (p = [] \/ p = [TR]) /\ Loc b (-1) p s'').
  { subst s''. destruct (is_persistent _); [|exists []; auto].
    destruct (is_restore _); [exists []; auto|exists [TR]; auto|exists [TR]; auto|].
    exists [TR]. split; [auto|]. eapply Loc_good; [exact La|lia|].
    eapply Good_trans; [apply IH|apply Good_clear_exn]. }
  destruct L'' as (p & Hp & L).
  assert (L1 : Loc b 1 p (set_steps s'' b 1))
    by (eapply Loc_set_steps; [exact L|right; left; split; auto]).
  destruct (ierr s'') eqn:E''.
  - split; [apply L|]. unfold halt. rewrite E''. discriminate.
  - split; [apply L1|]. intros _. exists p. auto.
Qed.

Lemma init_good fuel T : forall s b,
  Good s (set_output fuel T s b) /\ Good s (event_put fuel T s b) /\
  forall full, Good s (init_sblock fuel T s b full).
Proof.
  induction fuel as [|f IH]; intros s b.
  - simpl. repeat split; try apply Good_set_err; try apply FrameX_refl; auto.
  - assert (IHo : forall s b, Good s (set_output f T s b)) by (intros; apply IH).
    assert (IHe : forall s b, Good s (event_put f T s b)) by (intros; apply IH).
    assert (IHi : forall s b full, Good s (init_sblock f T s b full)) by (intros; apply IH).
    split; [|split].
    + simpl. destruct (halt s); [apply Good_refl|]. destruct (inited s b); [apply Good_refl|].
      eapply Good_trans; [apply Good_set_inited|]. apply fold_good. intros; apply IHe.
    + cbn [event_put]. destruct (halt s); [apply Good_refl|].
      destruct (active s b); [apply Good_set_exn|]. cbv zeta.
      set (s0 := set_active s b true).
      assert (G0 : Good s s0) by apply Good_set_active.
      set (s1 := if (0 <=? steps s0 b) && (steps s0 b <? 2) then _ else s0).
      assert (G1 : Good s s1).
      { subst s1. destruct ((0 <=? steps s0 b) && (steps s0 b <? 2)); [|exact G0].
        eapply Good_trans; [exact G0|]. eapply Good_trans; [apply Good_set_active|].
        eapply Good_trans; [apply IHi|].
        destruct (iexn _); [apply Good_set_err|apply Good_set_active]. }
      destruct (halt s1); [eapply Good_trans; [exact G1|apply Good_set_active]|].
      eapply Good_trans; [exact G1|]. eapply Good_trans; [apply Good_handler|].
      set (s3 := if is_handler_sets (spec_of T b) then _ else _).
      assert (G3 : Good (add_log s1 (CHandler b)) s3)
        by (subst s3; destruct (is_handler_sets _); [apply IHo|apply Good_refl]).
      eapply Good_trans; [exact G3|].
      destruct (iexn s3); [eapply Good_trans; [apply Good_set_err|apply Good_set_active]|apply Good_set_active].
    + intros full. rewrite init_sblock_eq. destruct (halt s) eqn:Ee; [apply Good_refl|].
      pose proof (first_frame f T b s (fun s0 => IHo s0 b)) as F1.
      pose proof (regular_frame f T b (first_half f T b s) (fun s0 => IHo s0 b)) as F2.
      destruct (steps s b =? 0) eqn:E0.
      * apply Z.eqb_eq in E0.
        assert (Hn : 0 <= steps s b) by lia.
        replace (steps s b =? 1) with false by (rewrite E0; reflexivity). cbn [orb andb].
        destruct (halt (first_half f T b s)) eqn:E1.
        { split; [intros HP; apply (first_P f T b s (fun s0 => IHo s0 b) HP E0)|].
          eapply FrameX_to_None; eassumption. }
        destruct full.
        -- split.
           ++ intros HP. destruct (first_P f T b s (fun s0 => IHo s0 b) HP E0) as [_ H].
              destruct (H E1) as (p & Hp & L).
              apply (regular_P f T b _ p (fun s0 => IHo s0 b) L Hp).
           ++ eapply FrameX_to_None; [exact Hn|]. ftr; eassumption.
        -- split; [intros HP; apply (first_P f T b s (fun s0 => IHo s0 b) HP E0)|].
           eapply FrameX_to_None; eassumption.
      * assert (Efh : first_half f T b s = s) by (unfold first_half; now rewrite E0).
        rewrite Efh in *. rewrite Ee. cbn [andb]. rewrite orb_false_r.
        destruct (steps s b =? 1) eqn:E1; [|apply Good_refl].
        apply Z.eqb_eq in E1. split.
        -- intros HP.
           assert (exists p, (p = [] \/ p = [TR]) /\ Loc b 1 p s) as (p & Hp & L).
           { pose proof (HP b) as Hb. rewrite E1 in Hb.
             destruct Hb as [[H _]|[[_ H]|[[H|H] _]]]; try discriminate.
             exists (proj b (ilog s)). split; [exact H|]. repeat split; auto. }
           apply (regular_P f T b _ p (fun s0 => IHo s0 b) L Hp).
        -- eapply FrameX_to_None; [rewrite E1; lia|exact F2].
Qed.

(* every reachable state of the whole start-up satisfies the step-machine invariant *)
Lemma P_istate0 : P istate0.
Proof. intros b. left. auto. Qed.

Lemma sync_pass_P T s : P s -> P (sync_pass T s).
Proof.
  unfold sync_pass.
  apply (fold_good (fun acc b => let r := init_sblock (fuel_of T) T acc b false in
                                 if iexn r then set_err r else r)).
  intros s0 a. cbv zeta.
  pose proof (proj2 (proj2 (init_good (fuel_of T) T s0 a)) false) as G.
  destruct (iexn _); [eapply Good_trans; [exact G|apply Good_set_err]|exact G].
Qed.

Lemma proj_async b l (g : istate -> nat * Z * ascript -> istate) : forall s,
  (forall s t, proj b (ilog (g s t)) = proj b (ilog s) /\ steps (g s t) = steps s) ->
  proj b (ilog (fold_left g l s)) = proj b (ilog s) /\ steps (fold_left g l s) = steps s.
Proof.
  intros s Hg. revert s. induction l as [|t r IH]; intros s; simpl; [auto|].
  destruct (IH (g s t)) as [A B]. destruct (Hg s t) as [C D]. split; congruence.
Qed.

Lemma async_phase_P T s : P s -> P (fst (async_phase T s)).
Proof.
  intros HP. unfold async_phase.
  destruct (run_tasks (sort_tasks (async_started T s)) 0 []) as [tend fin]. simpl.
  apply (fold_good (fun acc f => match snd f with
                                 | ADone _ | APoll _ => clear_exn (set_output (fuel_of T) T acc (snd (fst f)))
                                 | _ => acc end)).
  - intros s0 a. destruct (snd a); try apply Good_refl;
      (eapply Good_trans; [exact (proj1 (init_good (fuel_of T) T s0 (snd (fst a))))|apply Good_clear_exn]).
  - intros b.
    destruct (proj_async b (async_started T s)
                (fun acc t => add_log acc (CAsync (fst (fst t)))) s) as [A B].
    + intros s0 t. simpl. rewrite proj_app. simpl. now rewrite app_nil_r.
    + rewrite A, B. apply HP.
Qed.

Lemma pre_phase_P T s : P s -> P (pre_phase T s).
Proof.
  unfold pre_phase.
  apply (fold_good (fun acc b => match is_async (spec_of T b) with
                                 | Some (_, APoll d) =>
                                     if d =? 0 then
                                       let r := set_output (fuel_of T) T acc b in
                                       if iexn r then set_err r else r
                                     else acc
                                 | _ => acc end)).
  intros s0 b. destruct (is_async (spec_of T b)) as [[tmo sc]|]; [|apply Good_refl].
  destruct sc; try apply Good_refl. destruct (d =? 0); [|apply Good_refl]. cbv zeta.
  pose proof (proj1 (init_good (fuel_of T) T s0 b)) as G.
  destruct (iexn _); [eapply Good_trans; [exact G|apply Good_set_err]|exact G].
Qed.

Theorem init_step_machine T : P (fst (fst (run_init T))).
Proof.
  unfold run_init.
  pose proof (sync_pass_P T _ (pre_phase_P T istate0 P_istate0)) as H1.
  destruct (ierr (sync_pass T (pre_phase T istate0))); [exact H1|].
  pose proof (async_phase_P T _ H1) as H2.
  destruct (async_phase T (sync_pass T (pre_phase T istate0))) as [s2 tend]. simpl in H2.
  destruct (ierr s2); [exact H2|]. simpl. now apply sync_pass_P.
Qed.

(* what the invariant says about the log: per block the three routines occur at most once and
   in the order restore, regular, from_value *)
Theorem allowed_order st p : allowed st p ->
  p = [] \/ p = [TR] \/ p = [TG] \/ p = [TR; TG] \/ p = [TG; TF] \/ p = [TR; TG; TF].
Proof. unfold allowed. intuition. Qed.

(* a block whose steps are complete has run init_regular exactly once *)
Theorem complete_ran_regular st p : allowed st p -> st = 2 -> In TG p.
Proof.
  unfold allowed. intros [[H _]|[[[H|H] _]|[_ H]]] E; try lia.
  destruct H as [->|[->|[->| ->]]]; simpl; auto.
Qed.

(* an event that arrives before the block finished its synchronous steps makes those steps run
   first: in event_put the handler is entered either with the run over or with all steps done *)
Lemma regular_half_completes f T b s1 :
  halt (regular_half f T b s1) = false -> steps (regular_half f T b s1) b = 2.
Proof.
  unfold regular_half. cbv zeta.
  set (s3 := match is_regular (spec_of T b) with GNoEffect => _ | GSets => _ | GRaises => _ end).
  destruct (halt s3) eqn:E3; [congruence|].
  set (s4 := if negb (inited s3 b) && is_initdef (spec_of T b) then _ else s3).
  destruct (halt s4) eqn:E4; [congruence|].
  intros _. simpl. apply fupd_same.
Qed.

Theorem full_init_completes f T s b :
  steps s b = 0 \/ steps s b = 1 ->
  halt (init_sblock f T s b true) = false -> steps (init_sblock f T s b true) b = 2.
Proof.
  intros Hs. destruct f as [|f]; [simpl; discriminate|].
  rewrite init_sblock_eq. destruct (halt s) eqn:Ee; [congruence|].
  destruct (halt (first_half f T b s)) eqn:E1; [congruence|].
  assert (C : (steps s b =? 1) || ((steps s b =? 0) && true) = true)
    by (destruct Hs as [-> | ->]; reflexivity).
  rewrite C. apply regular_half_completes.
Qed.

(* the handler of a pending event is entered only after the block's synchronous steps have been
   completed: r is the state after the early initialisation *)
Theorem event_runs_sync_steps_first f T s b :
  halt s = false -> active s b = false -> 0 <= steps s b < 2 ->
  let r := init_sblock f T (set_active (set_active s b true) b false) b true in
  halt r = false -> steps r b = 2.
Proof.
  intros He Ha Hs r Hr. subst r. apply full_init_completes; [|exact Hr]. simpl. lia.
Qed.

(* async tasks: at most one per block *)
Theorem async_once T s : NoDup (map (fun t => fst (fst t)) (async_started T s)).
Proof.
  unfold async_started.
  assert (G : forall l, NoDup l ->
    NoDup (map (fun t : nat * Z * ascript => fst (fst t))
       (flat_map (fun b => match is_async (spec_of T b) with
                     | Some (tmo, sc) => if negb (inited s b) && (0 <? tmo) then [(b, tmo, sc)] else []
                     | None => [] end) l)) /\
    forall x, In x (map (fun t : nat * Z * ascript => fst (fst t))
       (flat_map (fun b => match is_async (spec_of T b) with
                     | Some (tmo, sc) => if negb (inited s b) && (0 <? tmo) then [(b, tmo, sc)] else []
                     | None => [] end) l)) -> In x l).
  { induction l as [|a r IH]; intros Hnd; simpl; [split; [constructor|auto]|].
    inversion Hnd as [|? ? Ha Hr]; subst. destruct (IH Hr) as [IH1 IH2].
    destruct (is_async (spec_of T a)) as [[tmo sc]|]; simpl.
    - destruct (negb (inited s a) && (0 <? tmo)); simpl.
      + split; [constructor; [intros H; apply Ha, IH2, H|exact IH1]|].
        intros x [->|H]; auto.
      + split; [exact IH1|intros x H; right; auto].
    - split; [exact IH1|intros x H; right; auto]. }
  apply G, seq_NoDup.
Qed.
