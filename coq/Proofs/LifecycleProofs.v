From Verif Require Import Values Lifecycle.
From Coq Require Import Permutation Lia.
Open Scope list_scope.

Lemma remove1_perm i l r : remove1 i l = Some r -> Permutation l (i :: r).
Proof.
  revert r. induction l as [|x l IH]; intros r; simpl; [discriminate|].
  destruct (Nat.eqb x i) eqn:E.
  - apply Nat.eqb_eq in E. subst. intros H; inversion H; subst. reflexivity.
  - destruct (remove1 i l) as [r'|]; [|discriminate]. intros H; inversion H; subst.
    rewrite (IH r' eq_refl). apply perm_swap.
Qed.

Definition pending (s : lstate) : list nat := ls_astop s ++ ls_sstop s.

Lemma lstep_facts s e s' : lstep s e = Some s' ->
  Permutation (pending s) (stops_of [e] ++ pending s') /\
  ls_tostart s = starts_of [e] ++ ls_tostart s'.
Proof.
  destruct e as [i|i|i|i]; simpl; unfold pending.
  - destruct (ls_tostart s) as [|x r] eqn:E; [discriminate|].
    destruct (Nat.eqb x i) eqn:Ex; [|discriminate]. apply Nat.eqb_eq in Ex. subst x.
    intros H; inversion H; subst; simpl. split; reflexivity.
  - destruct (ls_tostart s) as [|x r] eqn:E; [|discriminate].
    destruct (remove1 i (ls_astop s)) as [r|] eqn:R.
    + intros H; inversion H; subst; simpl. split; [|reflexivity].
      rewrite (remove1_perm _ _ _ R). reflexivity.
    + destruct (ls_astop s) eqn:A; [|discriminate].
      destruct (ls_abegin s); [|discriminate]. destruct (ls_aend s); [|discriminate].
      destruct (remove1 i (ls_sstop s)) as [r|] eqn:R2; [|discriminate].
      intros H; inversion H; subst; simpl. split; [|reflexivity].
      rewrite (remove1_perm _ _ _ R2). reflexivity.
  - destruct (ls_astop s) eqn:A; [|discriminate].
    destruct (remove1 i (ls_abegin s)); [|discriminate].
    intros H; inversion H; subst; simpl. split; reflexivity.
  - destruct (remove1 i (ls_aend s)); [|discriminate].
    intros H; inversion H; subst; simpl. split; reflexivity.
Qed.

Lemma stops_of_cons e l : stops_of (e :: l) = stops_of [e] ++ stops_of l.
Proof. unfold stops_of. simpl. now rewrite app_nil_r. Qed.
Lemma starts_of_cons e l : starts_of (e :: l) = starts_of [e] ++ starts_of l.
Proof. unfold starts_of. simpl. now rewrite app_nil_r. Qed.

Lemma lrun_facts l : forall s s', lrun s l = Some s' ->
  Permutation (pending s) (stops_of l ++ pending s') /\
  ls_tostart s = starts_of l ++ ls_tostart s'.
Proof.
  induction l as [|e l IH]; intros s s'; cbn [lrun].
  - intros H; inversion H; subst. split; reflexivity.
  - destruct (lstep s e) as [s1|] eqn:E; [|discriminate]. intros H.
    destruct (lstep_facts _ _ _ E) as [A B]. destruct (IH _ _ H) as [C D].
    rewrite stops_of_cons, starts_of_cons. split.
    + rewrite A, C. now rewrite app_assoc.
    + rewrite B, D. now rewrite app_assoc.
Qed.

Lemma filter_partition {A} (f : A -> bool) l :
  Permutation (filter f l ++ filter (fun x => negb (f x)) l) l.
Proof.
  induction l as [|x l IH]; simpl; [reflexivity|].
  destruct (f x); simpl.
  - now constructor.
  - rewrite <- Permutation_middle. now constructor.
Qed.

(* stop() is called exactly once on exactly those blocks whose start() had returned *)
Theorem accepted_stops_exactly_started p l : accepted p l = true ->
  starts_of l = started p /\ Permutation (stops_of l) (started p) /\ NoDup (stops_of l).
Proof.
  unfold accepted. destruct (lrun (lstate0 p) l) as [s|] eqn:R; [|discriminate].
  intros F. destruct (lrun_facts _ _ _ R) as [A B].
  unfold lfinal in F.
  destruct (ls_tostart s) eqn:E1; [|discriminate]. destruct (ls_astop s) eqn:E2; [|discriminate].
  destruct (ls_abegin s); [|discriminate]. destruct (ls_aend s); [|discriminate].
  destruct (ls_sstop s) eqn:E5; [|discriminate].
  unfold pending in A. rewrite E2, E5 in A. simpl in A, B. rewrite !app_nil_r in *.
  assert (P : Permutation (stops_of l) (started p)).
  { rewrite <- A. simpl. apply filter_partition. }
  repeat split; auto.
  - eapply Permutation_NoDup; [symmetry; exact P|].
    unfold started. destruct (lp_prestart_fail p); [constructor|apply seq_NoDup].
Qed.

(* once the first synchronous block is stopped the acceptor is "closed": no stop_async activity
   can follow *)
Definition closed (s : lstate) : Prop := ls_astop s = [] /\ ls_abegin s = [] /\ ls_aend s = [].

Lemma closed_run l : forall s s', closed s -> lrun s l = Some s' ->
  existsb (fun e => match e with LSaEnd _ | LSaBegin _ => true | _ => false end) l = false.
Proof.
  induction l as [|e l IH]; intros s s' C; simpl; [reflexivity|].
  destruct (lstep s e) as [s1|] eqn:E; [|discriminate]. intros H.
  destruct C as (C1 & C2 & C3).
  destruct e as [i|i|i|i]; simpl in *.
  - destruct (ls_tostart s) as [|x r]; [discriminate|]. destruct (Nat.eqb x i); [|discriminate].
    inversion E; subst. eapply IH; [|exact H]. repeat split; assumption.
  - destruct (ls_tostart s); [|discriminate]. rewrite C1 in E. simpl in E. rewrite C2, C3 in E.
    destruct (remove1 i (ls_sstop s)); [|discriminate]. inversion E; subst.
    eapply IH; [|exact H]. repeat split; reflexivity.
  - rewrite C1, C2 in E. discriminate.
  - rewrite C3 in E. discriminate.
Qed.

Definition SInv (p : lplan) (s : lstate) : Prop :=
  (forall i, In i (ls_astop s) -> is_async p i = true) /\
  (forall i, In i (ls_sstop s) -> is_async p i = false).

Lemma remove1_incl i l r : remove1 i l = Some r -> forall x, In x r -> In x l.
Proof.
  intros H x Hx. apply remove1_perm in H. eapply Permutation_in; [symmetry; exact H|now right].
Qed.
Lemma remove1_in i l r : remove1 i l = Some r -> In i l.
Proof.
  intros H. apply remove1_perm in H. eapply Permutation_in; [symmetry; exact H|now left].
Qed.

(* blocks with asynchronous clean-up are stopped and their stop_async is over before any of the
   remaining blocks is stopped *)
Lemma async_first_run p l : forall s s', SInv p s -> lrun s l = Some s' ->
  all_saend_before_sync_stop p l = true.
Proof.
  induction l as [|e l IH]; intros s s' I; simpl; [reflexivity|].
  destruct (lstep s e) as [s1|] eqn:E; [|discriminate]. intros H.
  destruct I as [I1 I2].
  destruct e as [i|i|i|i]; simpl in E.
  - destruct (ls_tostart s) as [|x r]; [discriminate|]. destruct (Nat.eqb x i); [|discriminate].
    inversion E; subst. eapply IH; [|exact H]. split; assumption.
  - destruct (ls_tostart s); [|discriminate].
    destruct (remove1 i (ls_astop s)) as [r|] eqn:R.
    + inversion E; subst. rewrite (I1 i (remove1_in _ _ _ R)).
      eapply IH; [|exact H]. split; simpl; [|assumption].
      intros x Hx. apply I1. eapply remove1_incl; eassumption.
    + destruct (ls_astop s) eqn:A; [|discriminate].
      destruct (ls_abegin s) eqn:B; [|discriminate]. destruct (ls_aend s) eqn:C; [|discriminate].
      destruct (remove1 i (ls_sstop s)) as [r|] eqn:R2; [|discriminate].
      inversion E; subst. rewrite (I2 i (remove1_in _ _ _ R2)).
      apply andb_true_iff. split.
      * apply negb_true_iff. eapply closed_run; [|exact H]. repeat split; reflexivity.
      * eapply IH; [|exact H]. split; simpl; [intros ? []|].
        intros x Hx. apply I2. eapply remove1_incl; eassumption.
  - destruct (ls_astop s) eqn:A; [|discriminate].
    destruct (remove1 i (ls_abegin s)); [|discriminate]. inversion E; subst.
    eapply IH; [|exact H]. split; simpl; [intros ? []|assumption].
  - destruct (remove1 i (ls_aend s)); [|discriminate]. inversion E; subst.
    eapply IH; [|exact H]. split; assumption.
Qed.

Theorem async_cleanup_first p l : accepted p l = true -> all_saend_before_sync_stop p l = true.
Proof.
  unfold accepted. destruct (lrun (lstate0 p) l) as [s|] eqn:R; [|discriminate]. intros _.
  eapply async_first_run; [|exact R]. split; simpl; intros i Hi; apply filter_In in Hi as [_ Hi].
  - exact Hi.
  - now apply negb_true_iff in Hi.
Qed.

(* each stop_async starts after the stop() of all async blocks and ends after it started;
   an error in one block's clean-up is just another way for its step to end: the acceptor (and
   the code) never skips the remaining blocks - read off the final-state condition *)
Theorem accepted_final_nothing_owed p l s :
  lrun (lstate0 p) l = Some s -> lfinal s = true ->
  ls_astop s = [] /\ ls_abegin s = [] /\ ls_aend s = [] /\ ls_sstop s = [].
Proof.
  intros _. unfold lfinal.
  destruct (ls_tostart s); [|discriminate]. destruct (ls_astop s); [|discriminate].
  destruct (ls_abegin s); [|discriminate]. destruct (ls_aend s); [|discriminate].
  destruct (ls_sstop s); [|discriminate]. auto.
Qed.

(* ---- link: an accepted log satisfies the ordering/counting half of the monitor ---- *)
Lemma count_nat_perm i l1 l2 : Permutation l1 l2 -> count_nat i l1 = count_nat i l2.
Proof.
  unfold count_nat. induction 1; simpl; auto.
  - destruct (Nat.eqb i x); simpl; auto.
  - destruct (Nat.eqb i x), (Nat.eqb i y); simpl; auto.
  - congruence.
Qed.

Lemma count_nat_nodup i l : NoDup l -> (count_nat i l <= 1)%nat.
Proof.
  unfold count_nat. induction 1 as [|x l Hx Hnd IH]; simpl; [lia|].
  destruct (Nat.eqb i x) eqn:E; simpl; [|exact IH].
  apply Nat.eqb_eq in E. subst x.
  assert (Z : filter (Nat.eqb i) l = []).
  { clear -Hx. induction l as [|y l IH]; simpl; [reflexivity|].
    destruct (Nat.eqb i y) eqn:E; [apply Nat.eqb_eq in E; subst; exfalso; apply Hx; now left|].
    apply IH. intros H; apply Hx; now right. }
  rewrite Z. simpl. lia.
Qed.

Theorem lifecycle_agree_implies_order p l : accepted p l = true ->
  stops_exactly_started (lp_n p) l = true /\ all_saend_before_sync_stop p l = true.
Proof.
  intros H. split; [|now apply async_cleanup_first].
  destruct (accepted_stops_exactly_started p l H) as (S & P & ND).
  unfold stops_exactly_started. apply andb_true_iff. split.
  - apply forallb_forall. intros i _. apply andb_true_iff. split.
    + apply Nat.eqb_eq. rewrite S. now apply count_nat_perm.
    + apply Nat.leb_le. rewrite S. apply count_nat_nodup.
      eapply Permutation_NoDup; [exact P|exact ND].
  - apply forallb_forall. intros i Hi. apply Nat.ltb_lt.
    assert (In i (started p)) as Hs by (eapply Permutation_in; eassumption).
    unfold started in Hs. destruct (lp_prestart_fail p); [destruct Hs|].
    apply in_seq in Hs. destruct (lp_start_fail p); lia.
Qed.
