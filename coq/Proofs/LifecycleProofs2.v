(* C08: stop_async begins and is awaited exactly once per asynchronously cleaned-up block.
   Two projections of the log (sabegins_of, saends_of) and proofs. *)
From Verif Require Import Values Lifecycle LifecycleProofs.
From Coq Require Import Permutation Lia.
Open Scope list_scope.

(* stop_async of every asynchronously cleaned-up started block begins exactly once and is
   awaited (ends) exactly once; no other block gets a stop_async *)
Definition sabegins_of (l : list lev) : list nat := flat_map (fun e => match e with LSaBegin i => [i] | _ => [] end) l.
Definition saends_of (l : list lev) : list nat := flat_map (fun e => match e with LSaEnd i => [i] | _ => [] end) l.

Lemma sabegins_of_cons e l : sabegins_of (e :: l) = sabegins_of [e] ++ sabegins_of l.
Proof. unfold sabegins_of. simpl. now rewrite app_nil_r. Qed.
Lemma saends_of_cons e l : saends_of (e :: l) = saends_of [e] ++ saends_of l.
Proof. unfold saends_of. simpl. now rewrite app_nil_r. Qed.

Lemma lstep_sa_facts s e s' : lstep s e = Some s' ->
  Permutation (ls_abegin s) (sabegins_of [e] ++ ls_abegin s') /\
  Permutation (sabegins_of [e] ++ ls_aend s) (saends_of [e] ++ ls_aend s').
Proof.
  destruct e as [i|i|i|i]; simpl.
  - destruct (ls_tostart s) as [|x r]; [discriminate|].
    destruct (Nat.eqb x i); [|discriminate].
    intros H; inversion H; subst; simpl. split; reflexivity.
  - destruct (ls_tostart s) as [|x r]; [|discriminate].
    destruct (remove1 i (ls_astop s)) as [r|].
    + intros H; inversion H; subst; simpl. split; reflexivity.
    + destruct (ls_astop s); [|discriminate].
      destruct (ls_abegin s); [|discriminate]. destruct (ls_aend s); [|discriminate].
      destruct (remove1 i (ls_sstop s)) as [r|]; [|discriminate].
      intros H; inversion H; subst; simpl. split; reflexivity.
  - destruct (ls_astop s); [|discriminate].
    destruct (remove1 i (ls_abegin s)) as [r|] eqn:R; [|discriminate].
    intros H; inversion H; subst; simpl. split; [|reflexivity].
    apply (remove1_perm _ _ _ R).
  - destruct (remove1 i (ls_aend s)) as [r|] eqn:R; [|discriminate].
    intros H; inversion H; subst; simpl. split; [reflexivity|].
    apply (remove1_perm _ _ _ R).
Qed.

Lemma lrun_sa_facts l : forall s s', lrun s l = Some s' ->
  Permutation (ls_abegin s) (sabegins_of l ++ ls_abegin s') /\
  Permutation (sabegins_of l ++ ls_aend s) (saends_of l ++ ls_aend s').
Proof.
  induction l as [|e l IH]; intros s s'; cbn [lrun].
  - intros H; inversion H; subst. split; reflexivity.
  - destruct (lstep s e) as [s1|] eqn:E; [|discriminate]. intros H.
    destruct (lstep_sa_facts _ _ _ E) as [A B]. destruct (IH _ _ H) as [C D].
    rewrite sabegins_of_cons, saends_of_cons. split.
    + rewrite A, C. now rewrite app_assoc.
    + rewrite <- !app_assoc.
      transitivity (sabegins_of l ++ (sabegins_of [e] ++ ls_aend s)).
      { rewrite !app_assoc. apply Permutation_app_tail. apply Permutation_app_comm. }
      rewrite B.
      transitivity (saends_of [e] ++ (sabegins_of l ++ ls_aend s1)).
      { rewrite !app_assoc. apply Permutation_app_tail. apply Permutation_app_comm. }
      now rewrite D.
Qed.

Theorem stop_async_exactly_once p l : accepted p l = true ->
  Permutation (sabegins_of l) (filter (is_async p) (started p)) /\
  Permutation (saends_of l) (filter (is_async p) (started p)) /\
  NoDup (sabegins_of l) /\ NoDup (saends_of l).
Proof.
  unfold accepted. destruct (lrun (lstate0 p) l) as [s|] eqn:R; [|discriminate].
  intros F. destruct (lrun_sa_facts _ _ _ R) as [A B].
  unfold lfinal in F.
  destruct (ls_tostart s); [|discriminate]. destruct (ls_astop s); [|discriminate].
  destruct (ls_abegin s); [|discriminate]. destruct (ls_aend s); [|discriminate].
  simpl in A, B. rewrite !app_nil_r in *.
  assert (ND : NoDup (filter (is_async p) (started p))).
  { apply NoDup_filter. unfold started. destruct (lp_prestart_fail p); [constructor|apply seq_NoDup]. }
  assert (PB : Permutation (sabegins_of l) (filter (is_async p) (started p))) by (now symmetry).
  assert (PE : Permutation (saends_of l) (filter (is_async p) (started p))) by (now rewrite <- B).
  repeat split; auto.
  - eapply Permutation_NoDup; [symmetry; exact PB|exact ND].
  - eapply Permutation_NoDup; [symmetry; exact PE|exact ND].
Qed.

Lemma lrun_app l1 : forall l2 s s', lrun s (l1 ++ l2) = Some s' ->
  exists s1, lrun s l1 = Some s1 /\ lrun s1 l2 = Some s'.
Proof.
  induction l1 as [|e l1 IH]; intros l2 s s'; cbn [lrun app].
  - intros H. exists s. split; [reflexivity|exact H].
  - destruct (lstep s e) as [s1|]; [|discriminate]. apply IH.
Qed.

(* at every instant of the run: a stop_async that has ended had begun before *)
Theorem stop_async_end_after_begin p pre post i : accepted p (pre ++ post) = true ->
  In i (saends_of pre) -> In i (sabegins_of pre).
Proof.
  unfold accepted. destruct (lrun (lstate0 p) (pre ++ post)) as [s|] eqn:R; [|discriminate].
  intros _ Hin. destruct (lrun_app _ _ _ _ R) as [s1 [R1 _]].
  destruct (lrun_sa_facts _ _ _ R1) as [_ B]. simpl in B. rewrite app_nil_r in B.
  eapply Permutation_in; [symmetry; exact B|]. apply in_or_app. now left.
Qed.
