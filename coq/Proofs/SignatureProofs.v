From Coq Require Import Lia.
From Verif Require Import Values Signature.
Open Scope string_scope.
Open Scope list_scope.

Lemma single_is_not_a_group : forall k, item_ok ExSingle (Some k) = false.
Proof. reflexivity. Qed.

Lemma group_is_not_single : forall e, e <> ExSingle -> item_ok e None = false.
Proof. intros e He; destruct e; try reflexivity; congruence. Qed.

Lemma count_exact : forall n k, item_ok (ExCount n) (Some k) = true <-> k = n.
Proof. intros n k; simpl; apply Nat.eqb_eq. Qed.

Lemma range_bounds : forall lo hi k,
  item_ok (ExRange lo hi) (Some k) = true <->
  (forall l, lo = Some l -> (l <= k)%nat) /\ (forall h, hi = Some h -> (k <= h)%nat).
Proof.
  intros lo hi k; simpl; rewrite andb_true_iff; split.
  - intros [Hl Hh]; split.
    + intros l ->; apply Nat.leb_le; exact Hl.
    + intros h ->; apply Nat.leb_le; exact Hh.
  - intros [Hl Hh]; split.
    + destruct lo as [l|]; [apply Nat.leb_le; apply Hl; reflexivity | reflexivity].
    + destruct hi as [h|]; [apply Nat.leb_le; apply Hh; reflexivity | reflexivity].
Qed.

Lemma has_key_lookup : forall (A : Type) (l : list (string * A)) n,
  has_key l n = true <-> exists v, lookup n l = Some v.
Proof.
  intros A l n; unfold has_key; destruct (lookup n l) as [v|]; split.
  - intros _; exists v; reflexivity.
  - reflexivity.
  - discriminate.
  - intros [v Hv]; discriminate.
Qed.

Lemma lookup_in : forall (A : Type) (l : list (string * A)) n v,
  lookup n l = Some v -> In n (map fst l).
Proof.
  intros A l n v; induction l as [|[k w] r IH]; simpl; [discriminate|].
  destruct (String.eqb k n) eqn:E.
  - apply String.eqb_eq in E; intros _; left; exact E.
  - intros H; right; apply IH; exact H.
Qed.

Lemma in_lookup : forall (A : Type) (l : list (string * A)) n,
  In n (map fst l) -> exists v, lookup n l = Some v.
Proof.
  intros A l n; induction l as [|[k w] r IH]; simpl; [intros []|].
  intros [H|H].
  - subst k; rewrite String.eqb_refl; exists w; reflexivity.
  - destruct (String.eqb k n); [exists w; reflexivity | apply IH; exact H].
Qed.

(* the meaning of a successful check: same names, and every name has the expected shape *)
Theorem sig_ok_spec : forall es bs,
  sig_ok es bs = true <->
  (forall n, In n (map fst es) <-> In n (map fst bs)) /\
  (forall n e, In (n, e) es -> exists v, lookup n bs = Some v /\ item_ok e v = true).
Proof.
  intros es bs; unfold sig_ok; rewrite !andb_true_iff, !forallb_forall; split.
  - intros [[H1 H2] H3]; split.
    + intros n; split; intros Hn.
      * apply in_map_iff in Hn; destruct Hn as [[k e] [Hk Hin]]; simpl in Hk; subst k.
        specialize (H1 _ Hin); simpl in H1; apply has_key_lookup in H1; destruct H1 as [v Hv].
        eapply lookup_in; exact Hv.
      * apply in_map_iff in Hn; destruct Hn as [[k e] [Hk Hin]]; simpl in Hk; subst k.
        specialize (H2 _ Hin); simpl in H2; apply has_key_lookup in H2; destruct H2 as [v Hv].
        eapply lookup_in; exact Hv.
    + intros n e Hin; specialize (H3 _ Hin); simpl in H3.
      destruct (lookup n bs) as [v|]; [exists v; split; [reflexivity | exact H3] | discriminate].
  - intros [Hn Hi]; repeat split.
    + intros [n e] Hin; simpl; apply has_key_lookup; apply in_lookup; apply Hn.
      apply in_map_iff; exists (n, e); split; [reflexivity | exact Hin].
    + intros [n v] Hin; simpl; apply has_key_lookup; apply in_lookup; apply Hn.
      apply in_map_iff; exists (n, v); split; [reflexivity | exact Hin].
    + intros [n e] Hin; simpl; destruct (Hi _ _ Hin) as [v [Hv Hok]]; rewrite Hv; exact Hok.
Qed.

(* wrongly shaped inputs make the check - hence the start - fail *)
Theorem missing_input_fails : forall es bs n,
  In n (map fst es) -> ~ In n (map fst bs) -> sig_ok es bs = false.
Proof.
  intros es bs n Hin Hout; destruct (sig_ok es bs) eqn:E; [|reflexivity].
  apply sig_ok_spec in E; destruct E as [Hn _]; exfalso; apply Hout; apply Hn; exact Hin.
Qed.

Theorem unexpected_input_fails : forall es bs n,
  In n (map fst bs) -> ~ In n (map fst es) -> sig_ok es bs = false.
Proof.
  intros es bs n Hin Hout; destruct (sig_ok es bs) eqn:E; [|reflexivity].
  apply sig_ok_spec in E; destruct E as [Hn _]; exfalso; apply Hout; apply Hn; exact Hin.
Qed.

Theorem group_for_single_fails : forall es bs n k,
  In (n, ExSingle) es -> lookup n bs = Some (Some k) -> sig_ok es bs = false.
Proof.
  intros es bs n k Hin Hl; destruct (sig_ok es bs) eqn:E; [|reflexivity].
  apply sig_ok_spec in E; destruct E as [_ Hi]; destruct (Hi _ _ Hin) as [v [Hv Hok]].
  unfold shape in *; assert (v = Some k) by congruence; subst v; simpl in Hok; discriminate.
Qed.

Theorem single_for_group_fails : forall es bs n e,
  In (n, e) es -> e <> ExSingle -> lookup n bs = Some None -> sig_ok es bs = false.
Proof.
  intros es bs n e Hin He Hl; destruct (sig_ok es bs) eqn:E; [|reflexivity].
  apply sig_ok_spec in E; destruct E as [_ Hi]; destruct (Hi _ _ Hin) as [v [Hv Hok]].
  unfold shape in *; assert (v = None) by congruence; subst v; rewrite group_is_not_single in Hok by exact He; discriminate.
Qed.

Theorem wrong_count_fails : forall es bs n c k,
  In (n, ExCount c) es -> lookup n bs = Some (Some k) -> k <> c -> sig_ok es bs = false.
Proof.
  intros es bs n c k Hin Hl Hne; destruct (sig_ok es bs) eqn:E; [|reflexivity].
  apply sig_ok_spec in E; destruct E as [_ Hi]; destruct (Hi _ _ Hin) as [v [Hv Hok]].
  unfold shape in *; assert (v = Some k) by congruence; subst v; apply count_exact in Hok; contradiction.
Qed.

(* link: an accepted observation started iff the shape matches the declaration *)
Theorem sig_link : forall k, sig_verdict k = "A"%char -> sc_started k = sig_ok (sc_exp k) (sc_shape k).
Proof.
  intros k; unfold sig_verdict; destruct (Bool.eqb _ _) eqn:E; [|discriminate].
  intros _; apply Bool.eqb_prop in E; symmetry; exact E.
Qed.
