(* C07: the timetable of Cron is strictly sorted, and the wake-up chosen after a start, reload or
   reset (bisect_left) as well as the following ones (index + 1) never skip an alarm point. *)
From Verif Require Import Values Interval IntervalProofs TimeDate TimeDateProofs.
From Coq Require Import Lia ZifyBool.
Open Scope list_scope.
Open Scope Z_scope.

Definition all_valid (l : list (list Z)) : Prop := forall x, In x l -> valid_time x = true.

(* strictly increasing microsecond-of-day keys *)
Fixpoint sorted_keys (l : list (list Z)) : Prop :=
  match l with
  | [] => True
  | x :: r => (forall y, In y r -> time_key x < time_key y) /\ sorted_keys r
  end.

Lemma time_key_inj a b : valid_time a = true -> valid_time b = true -> time_key a = time_key b -> a = b.
Proof.
  intros Ha Hb E. apply list_eqb_eq. rewrite time_list_eqb by assumption. lia.
Qed.

Lemma ins_tod_sorted x l :
  valid_time x = true -> all_valid l -> sorted_keys l -> all_valid (ins_tod x l) /\ sorted_keys (ins_tod x l).
Proof.
  intros Hx. induction l as [|y r IH]; intros Hv Hs.
  - simpl. split; [intros z [<-|[]]; exact Hx|split; [intros z []|exact I]].
  - assert (Hy : valid_time y = true) by (apply Hv; now left).
    assert (Hvr : all_valid r) by (intros z Hz; apply Hv; now right).
    destruct Hs as [Hs1 Hs2]. cbn [ins_tod].
    rewrite (time_lex_lt x y Hx Hy), (time_list_eqb x y Hx Hy).
    destruct (time_key x <? time_key y) eqn:E1.
    + split.
      * intros z [<-|Hz]; [exact Hx|now apply Hv].
      * cbn [sorted_keys]. split; [|split; assumption].
        intros z [<-|Hz]; [lia|]. specialize (Hs1 z Hz). lia.
    + destruct (time_key x =? time_key y) eqn:E2.
      * split; [exact Hv|split; assumption].
      * destruct (IH Hvr Hs2) as [IV IS]. split.
        -- intros z [<-|Hz]; [exact Hy|now apply IV].
        -- cbn [sorted_keys]. split; [|exact IS].
           intros z Hz. apply ins_tod_in in Hz as [<-|Hz]; [lia|now apply Hs1].
Qed.

Lemma hours24_valid : all_valid hours24.
Proof.
  intros x Hx. unfold hours24 in Hx. apply in_map_iff in Hx as (h & <- & Hh). apply in_seq in Hh.
  unfold valid_time, in_range. lia.
Qed.

Theorem timetable_sorted alarms :
  all_valid alarms -> all_valid (timetable alarms) /\ sorted_keys (timetable alarms).
Proof.
  intros Ha. unfold timetable.
  assert (G : forall l acc, all_valid l -> all_valid acc -> sorted_keys acc ->
              all_valid (fold_left (fun acc x => ins_tod x acc) l acc) /\
              sorted_keys (fold_left (fun acc x => ins_tod x acc) l acc)).
  { induction l as [|x r IH]; intros acc Hl Hacc Hs; simpl; [split; assumption|].
    destruct (ins_tod_sorted x acc) as [V Srt]; [apply Hl; now left|exact Hacc|exact Hs|].
    apply IH; [intros z Hz; apply Hl; now right|exact V|exact Srt]. }
  apply G; [|intros z []|exact I].
  intros z Hz. apply in_app_or in Hz as [Hz|Hz]; [now apply hours24_valid|now apply Ha].
Qed.

(* in a sorted table: everything before the index is earlier than x, everything from the index on
   is not *)
Lemma bisect_sorted tt x :
  valid_time x = true -> all_valid tt -> sorted_keys tt ->
  (forall j, (j < bisect_left tt x)%nat -> time_key (nth j tt []) < time_key x) /\
  (forall j, (bisect_left tt x <= j < List.length tt)%nat -> time_key x <= time_key (nth j tt [])).
Proof.
  intros Hx. induction tt as [|y r IH]; intros Hv Hs.
  - simpl. split; intros j Hj; lia.
  - assert (Hy : valid_time y = true) by (apply Hv; now left).
    assert (Hvr : all_valid r) by (intros z Hz; apply Hv; now right).
    destruct Hs as [Hs1 Hs2]. cbn [bisect_left]. rewrite (time_lex_lt y x Hy Hx).
    destruct (time_key y <? time_key x) eqn:E.
    + destruct (IH Hvr Hs2) as [A B]. split.
      * intros [|j] Hj; cbn [nth]; [lia|]. apply A. lia.
      * intros [|j] Hj; [lia|]. cbn [nth]. apply B. cbn [List.length] in Hj. lia.
    + split; [intros j Hj; lia|].
      intros [|j] Hj; cbn [nth]; [lia|].
      assert (In (nth j r []) r) by (apply nth_In; cbn [List.length] in Hj; lia).
      specialize (Hs1 _ H). lia.
Qed.

(* after a start, a reload or a reset: the chosen wake-up is the first alarm point that is not
   over; if there is none today, every alarm point is over (the index wraps to 00:00) *)
Theorem fresh_wakeup_skips_nothing alarms now :
  all_valid alarms -> valid_time now = true ->
  let tt := timetable alarms in
  let i := bisect_left tt now in
  ((i < List.length tt)%nat ->
     In (nth i tt []) tt /\ time_key now <= time_key (nth i tt []) /\
     forall a, In a alarms -> time_key now <= time_key a -> time_key (nth i tt []) <= time_key a) /\
  ((i >= List.length tt)%nat -> forall a, In a alarms -> time_key a < time_key now).
Proof.
  intros Ha Hn tt i. destruct (timetable_sorted alarms Ha) as [V Srt]. fold tt in V, Srt.
  destruct (bisect_sorted tt now Hn V Srt) as [A B]. fold i in A, B. split.
  - intros Hi. split; [now apply nth_In|]. split; [apply B; lia|].
    intros a Hin Hle. apply alarms_in_timetable in Hin. fold tt in Hin.
    apply In_nth with (d := []) in Hin as (j & Hj & <-).
    destruct (Nat.lt_ge_cases j i) as [Hlt|Hge].
    + specialize (A j Hlt). lia.
    + destruct (Nat.eq_dec j i) as [->|Hne]; [lia|].
      (* j > i: sortedness *)
      assert (G : forall l p q, sorted_keys l -> (p < q < List.length l)%nat ->
                  time_key (nth p l []) < time_key (nth q l [])).
      { clear. induction l as [|x r IH]; intros p q Hs Hpq; [simpl in Hpq; lia|].
        destruct Hs as [H1 H2]. destruct q as [|q]; [lia|]. cbn [List.length] in Hpq.
        destruct p as [|p]; cbn [nth].
        - apply H1. apply nth_In. lia.
        - apply IH; [exact H2|lia]. }
      assert (time_key (nth i tt []) < time_key (nth j tt [])) by (apply G; [exact Srt|lia]). lia.
  - intros Hi a Hin. apply alarms_in_timetable in Hin. fold tt in Hin.
    apply In_nth with (d := []) in Hin as (j & Hj & <-). apply A. lia.
Qed.

(* the following wake-ups (index + 1): no entry of the table, hence no alarm point, lies strictly
   between two consecutive wake-ups *)
Theorem next_wakeup_skips_nothing alarms i :
  all_valid alarms ->
  let tt := timetable alarms in
  (S i < List.length tt)%nat ->
  time_key (nth i tt []) < time_key (nth (S i) tt []) /\
  forall a, In a alarms -> ~ (time_key (nth i tt []) < time_key a < time_key (nth (S i) tt [])).
Proof.
  intros Ha tt Hi. destruct (timetable_sorted alarms Ha) as [V Srt]. fold tt in V, Srt.
  assert (G : forall l p q, sorted_keys l -> (p < q < List.length l)%nat ->
              time_key (nth p l []) < time_key (nth q l [])).
  { clear. induction l as [|x r IH]; intros p q Hs Hpq; [simpl in Hpq; lia|].
    destruct Hs as [H1 H2]. destruct q as [|q]; [lia|]. cbn [List.length] in Hpq.
    destruct p as [|p]; cbn [nth].
    - apply H1. apply nth_In. lia.
    - apply IH; [exact H2|lia]. }
  split; [apply G; [exact Srt|lia]|].
  intros a Hin [H1 H2]. apply alarms_in_timetable in Hin. fold tt in Hin.
  apply In_nth with (d := []) in Hin as (j & Hj & E). rewrite <- E in H1, H2.
  destruct (Nat.lt_trichotomy j i) as [Hlt|[->|Hgt]].
  - assert (time_key (nth j tt []) < time_key (nth i tt [])) by (apply G; [exact Srt|lia]). lia.
  - lia.
  - destruct (Nat.eq_dec j (S i)) as [->|Hne]; [lia|].
    assert (time_key (nth (S i) tt []) < time_key (nth j tt [])) by (apply G; [exact Srt|lia]). lia.
Qed.

(* the last entry of the day is followed by the first one (00:00:00 of the next day): nothing
   later than the last entry exists *)
Theorem last_wakeup_skips_nothing alarms :
  all_valid alarms ->
  let tt := timetable alarms in
  forall a, In a alarms -> time_key a <= time_key (nth (List.length tt - 1) tt []).
Proof.
  intros Ha tt a Hin. destruct (timetable_sorted alarms Ha) as [V Srt]. fold tt in V, Srt.
  apply alarms_in_timetable in Hin. fold tt in Hin.
  apply In_nth with (d := []) in Hin as (j & Hj & <-).
  assert (G : forall l p q, sorted_keys l -> (p < q < List.length l)%nat ->
              time_key (nth p l []) < time_key (nth q l [])).
  { clear. induction l as [|x r IH]; intros p q Hs Hpq; [simpl in Hpq; lia|].
    destruct Hs as [H1 H2]. destruct q as [|q]; [lia|]. cbn [List.length] in Hpq.
    destruct p as [|p]; cbn [nth].
    - apply H1. apply nth_In. lia.
    - apply IH; [exact H2|lia]. }
  destruct (Nat.eq_dec j (List.length tt - 1)) as [->|Hne]; [lia|].
  assert (time_key (nth j tt []) < time_key (nth (List.length tt - 1) tt [])) by (apply G; [exact Srt|lia]).
  lia.
Qed.
