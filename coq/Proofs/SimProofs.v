From Verif Require Import Values Sim.
From Coq Require Import Qround.
Open Scope list_scope.
Open Scope Q_scope.

(* ---------- basic list/outs lemmas ---------- *)
Lemma upd_same o i v : upd o i v i = v.
Proof. unfold upd. now rewrite Nat.eqb_refl. Qed.
Lemma upd_other o i v k : k <> i -> upd o i v k = o k.
Proof. unfold upd. intros H. apply Nat.eqb_neq in H. now rewrite H. Qed.

Lemma mem_In i l : mem i l = true <-> In i l.
Proof.
  unfold mem. rewrite existsb_exists. split.
  - intros (x & Hx & E). apply Nat.eqb_eq in E. now subst.
  - intros H. exists i. split; [exact H|apply Nat.eqb_refl].
Qed.
Lemma in_rm i k l : In k (rm i l) <-> In k l /\ k <> i.
Proof. unfold rm. rewrite filter_In, negb_true_iff, Nat.eqb_neq. tauto. Qed.

Lemma reads_lt c b i : reads c b i = true -> (b < List.length c)%nat.
Proof.
  unfold reads. destruct (nth_error c b) eqn:E; [|discriminate]. intros _.
  apply nth_error_Some. congruence.
Qed.

Lemma succs_ok c i b : reads c b i = true -> In b (succs c i).
Proof.
  intros H. unfold succs. apply filter_In. split; [|exact H].
  apply in_seq. pose proof (reads_lt _ _ _ H). lia.
Qed.

(* ---------- locality of calc ---------- *)
Lemma read_upd_other o i v r : ref_is i r = false -> read (upd o i v) r = read o r.
Proof.
  destruct r as [n|w]; simpl; [|reflexivity]. intros H. apply Nat.eqb_neq in H.
  now apply upd_other.
Qed.

Lemma read_inp_upd_other o i v x : inp_reads i x = false -> read_inp (upd o i v) x = read_inp o x.
Proof.
  destruct x as [r|l]; simpl; intros H.
  - now rewrite read_upd_other.
  - f_equal. apply map_ext_in. intros a Ha. apply read_upd_other.
    destruct (ref_is i a) eqn:E; [|reflexivity].
    assert (existsb (ref_is i) l = true) by (apply existsb_exists; eauto). congruence.
Qed.

Lemma getins_upd_other o i v ins :
  existsb (fun ni => inp_reads i (snd ni)) ins = false -> getins (upd o i v) ins = getins o ins.
Proof.
  intros H. unfold getins. apply map_ext_in. intros [n x] Hin. simpl. f_equal.
  apply read_inp_upd_other. destruct (inp_reads i x) eqn:E; [|reflexivity].
  assert (existsb (fun ni => inp_reads i (snd ni)) ins = true)
    by (apply existsb_exists; exists (n, x); auto). congruence.
Qed.

Lemma calc_local c o i v b : b <> i -> reads c b i = false -> calc c (upd o i v) b = calc c o b.
Proof.
  intros Hne Hr. unfold calc, reads in *. destruct (nth_error c b) as [[|f ins]|]; try reflexivity.
  rewrite getins_upd_other by exact Hr. now rewrite upd_other by exact Hne.
Qed.

(* ---------- the comparator's fresh output is a fixed point of its hysteresis rule ---------- *)
Definition circ_wf (c : circuit) : bool :=
  forallb (fun b => match b with CB (FCompare lo hi) _ => Qle_bool lo hi | _ => true end) c.

Lemma compare_thr_bounds lo hi own : lo <= hi -> lo <= compare_thr lo hi own /\ compare_thr lo hi own <= hi.
Proof.
  intros H. unfold compare_thr.
  assert (M : lo <= (lo + hi) / 2 /\ (lo + hi) / 2 <= hi).
  { split.
    - apply Qle_shift_div_l; [reflexivity|]. setoid_replace (lo * 2) with (lo + lo) by ring.
      apply Qplus_le_compat; [apply Qle_refl|exact H].
    - apply Qle_shift_div_r; [reflexivity|]. setoid_replace (hi * 2) with (hi + hi) by ring.
      apply Qplus_le_compat; [exact H|apply Qle_refl]. }
  destruct own; try (destruct (truthy _); split; (apply Qle_refl || exact H)); exact M.
Qed.

Lemma compare_fixpoint lo hi own q :
  lo <= hi ->
  Qle_bool (compare_thr lo hi (VBool (Qle_bool (compare_thr lo hi own) q))) q
  = Qle_bool (compare_thr lo hi own) q.
Proof.
  intros H. destruct (compare_thr_bounds lo hi own H) as [B1 B2].
  destruct (Qle_bool (compare_thr lo hi own) q) eqn:E; simpl.
  - apply Qle_bool_iff in E. apply Qle_bool_iff. eapply Qle_trans; eassumption.
  - destruct (Qle_bool hi q) eqn:E2; [|reflexivity].
    apply Qle_bool_iff in E2. exfalso.
    assert (Qle_bool (compare_thr lo hi own) q = true)
      by (apply Qle_bool_iff; eapply Qle_trans; eassumption). congruence.
Qed.

Lemma circ_wf_compare c i lo hi ins :
  circ_wf c = true -> nth_error c i = Some (CB (FCompare lo hi) ins) -> lo <= hi.
Proof.
  unfold circ_wf. rewrite forallb_forall. intros H E. apply nth_error_In in E.
  specialize (H _ E). simpl in H. now apply Qle_bool_iff.
Qed.

(* after storing a freshly computed value the block is consistent (unless it reads itself) *)
Lemma calc_fixpoint c o i v :
  circ_wf c = true -> reads c i i = false -> calc c o i = Some (Ok v) ->
  exists v', calc c (upd o i v) i = Some (Ok v') /\ py_eq v v' = true.
Proof.
  intros Hwf Hr Hc. unfold calc, reads in *.
  destruct (nth_error c i) as [[|f ins]|] eqn:En; try discriminate.
  rewrite getins_upd_other by exact Hr. rewrite upd_same.
  inversion Hc as [Hc']. clear Hc.
  destruct f; simpl in *;
    try (exists v; split; [now rewrite Hc'|apply py_eq_refl]).
  (* FCompare *)
  destruct (ilookup "_" (getins o ins)) as [[x|[|x [|y l]]]|]; try discriminate.
  destruct (num_of x) as [q|]; try discriminate.
  inversion Hc' as [Hv]. eexists. split; [reflexivity|].
  rewrite compare_fixpoint by (eapply circ_wf_compare; eassumption).
  apply py_eq_refl.
Qed.

(* ---------- the invariant ---------- *)
Definition pending (c : circuit) (s : sim) (b : nat) : Prop :=
  In b (sE s) \/ exists q, In q (sQ s) /\ In b (succs c q).

Definition Inv (c : circuit) (s : sim) : Prop :=
  srunning s = true -> forall b, ~ pending c s b -> consistent c (so s) b = true.

Lemma consistent_noncblock c o b : is_cblock c b = false -> consistent c o b = true.
Proof.
  unfold consistent, calc, is_cblock. destruct (nth_error c b) as [[|f ins]|]; try reflexivity.
  discriminate.
Qed.

Lemma inv_init c : Inv c init_sim.
Proof. intros H. discriminate. Qed.

Lemma in_cblocks c b : is_cblock c b = true -> In b (cblocks c).
Proof.
  intros H. unfold cblocks. apply filter_In. split; [|exact H].
  apply in_seq. unfold is_cblock in H. destruct (nth_error c b) eqn:E; [|discriminate].
  assert (b < List.length c)%nat by (apply nth_error_Some; congruence). lia.
Qed.

Lemma inv_start_running c s : Inv c s -> Inv c (start_running c s).
Proof.
  intros HI. unfold start_running. destruct (srunning s) eqn:R; [exact HI|].
  intros _ b Hb. simpl in *. destruct (is_cblock c b) eqn:E.
  - exfalso. apply Hb. left. simpl. now apply in_cblocks.
  - now apply consistent_noncblock.
Qed.

Lemma start_running_running c s : srunning (start_running c s) = true.
Proof. unfold start_running. destruct (srunning s) eqn:R; [exact R|reflexivity]. Qed.

Lemma inv_drain c s : Inv c s -> Inv c (drain c s).
Proof.
  intros HI R b Hb. simpl in *. apply HI; [exact R|].
  intros [HE|(q & Hq & Hs)]; apply Hb; left; simpl; apply in_or_app; [left; exact HE|].
  right. apply in_flat_map. eauto.
Qed.

Lemma step_inv c s x s' : circ_wf c = true -> Inv c s -> do_step c s x = Ok s' -> Inv c s'.
Proof.
  intros Hwf HI. destruct x as [j v|i v|snap|]; unfold do_step.
  - (* SSet *)
    destruct (nth_error c j) as [[|f ins]|] eqn:Ej; try discriminate.
    destruct (py_eq (so s j) v) eqn:Ev; intros H; inversion H; subst; clear H; [exact HI|].
    intros R b Hb. simpl in *. rewrite R in Hb.
    destruct (Nat.eq_dec b j) as [->|Hne].
    { apply consistent_noncblock. unfold is_cblock. now rewrite Ej. }
    destruct (reads c b j) eqn:Rd.
    + exfalso. apply Hb. right. exists j. split; [apply in_or_app; right; now left|].
      now apply succs_ok.
    + unfold consistent. rewrite calc_local by assumption. rewrite upd_other by exact Hne.
      apply (HI R). intros [HE|(q & Hq & Hs)]; apply Hb; [left; exact HE|].
      right. exists q. split; [apply in_or_app; left; exact Hq|exact Hs].
  - (* SEval *)
    cbv zeta. remember (drain c (start_running c s)) as s1 eqn:Es1.
    assert (HI1 : Inv c s1) by (subst s1; apply inv_drain, inv_start_running, HI).
    assert (R1 : srunning s1 = true) by (subst s1; apply start_running_running).
    clear Es1.
    destruct (mem i (sE s1)) eqn:Hin; [|discriminate].
    destruct (Nat.ltb (eval_limit c) (S (scnt s1))); [discriminate|].
    destruct (calc c (so s1) i) as [[v'|e]|] eqn:Hc; try discriminate.
    destruct (py_eq v v') eqn:Evv; [|discriminate].
    destruct (py_eq (so s1 i) v') eqn:Ev; intros H; inversion H; subst s'; clear H.
    + (* unchanged *)
      intros _ b Hb. simpl in *.
      destruct (Nat.eq_dec b i) as [->|Hne].
      * unfold consistent. now rewrite Hc.
      * apply (HI1 R1). intros [HE|HQ]; apply Hb; [left; simpl; apply in_rm; split; assumption|].
        right. exact HQ.
    + (* changed *)
      intros _ b Hb. simpl in *.
      destruct (Nat.eq_dec b i) as [->|Hne].
      * destruct (reads c i i) eqn:Rii.
        { exfalso. apply Hb. left. simpl. apply in_or_app. right. now apply succs_ok. }
        destruct (calc_fixpoint c (so s1) i v' Hwf Rii Hc) as (w & Hw & Hpw).
        unfold consistent. rewrite Hw, upd_same. exact Hpw.
      * destruct (reads c b i) eqn:Rd.
        { exfalso. apply Hb. left. simpl. apply in_or_app. right. now apply succs_ok. }
        unfold consistent. rewrite calc_local by assumption. rewrite upd_other by exact Hne.
        apply (HI1 R1). intros [HE|HQ]; apply Hb; [left; simpl; apply in_or_app; left;
          apply in_rm; split; assumption|right; exact HQ].
  - (* SIdle *)
    cbv zeta. remember (drain c (start_running c s)) as s1 eqn:Es1.
    assert (HI1 : Inv c s1) by (subst s1; apply inv_drain, inv_start_running, HI).
    assert (R1 : srunning s1 = true) by (subst s1; apply start_running_running).
    assert (Q1 : sQ s1 = []) by (subst s1; reflexivity).
    clear Es1.
    destruct (sE s1) eqn:HE; [|discriminate].
    destruct (snapshot_ok (so s1) 0%nat snap && Nat.eqb (List.length snap) (List.length c)); [|discriminate].
    intros H; inversion H; subst s'; clear H.
    intros _ b Hb. simpl in *. apply HI1; [exact R1|].
    intros [H1|(q & Hq & _)]; [rewrite HE in H1; destruct H1|rewrite Q1 in Hq; destruct Hq].
  - (* SUnstable *)
    cbv zeta. remember (drain c (start_running c s)) as s1 eqn:Es1.
    assert (HI1 : Inv c s1) by (subst s1; apply inv_drain, inv_start_running, HI).
    clear Es1.
    destruct (sE s1); [discriminate|].
    destruct (Nat.ltb (eval_limit c) (S (scnt s1))); [|discriminate].
    intros H; inversion H; subst s'. exact HI1.
Qed.

Lemma run_inv c xs : forall s s', circ_wf c = true -> Inv c s -> run c s xs = Ok s' -> Inv c s'.
Proof.
  induction xs as [|x r IH]; intros s s' Hwf HI; simpl.
  - intros H; inversion H; subst; exact HI.
  - destruct (do_step c s x) as [s1|e] eqn:E; [|discriminate].
    apply IH; [exact Hwf|eapply step_inv; eassumption].
Qed.

Lemma run_app c xs ys s :
  run c s (xs ++ ys) = match run c s xs with Ok s1 => run c s1 ys | Err e => Err e end.
Proof.
  revert s. induction xs as [|x r IH]; intros s; simpl; [reflexivity|].
  destruct (do_step c s x); [apply IH|reflexivity].
Qed.

(* C01 main theorem: at EVERY idle point of EVERY accepted schedule (any circuit - cyclic ones
   included -, any number and order of set_output steps, interleaved with evaluations, any
   choice of the block to evaluate next) every combinational block is consistent, and the
   observed snapshot agrees with these outputs. *)
Theorem idle_consistent c pre snap s' :
  circ_wf c = true -> run c init_sim (pre ++ [SIdle snap]) = Ok s' ->
  (forall b, consistent c (so s') b = true) /\
  snapshot_ok (so s') 0%nat snap = true /\ is_idle s' = true.
Proof.
  intros Hwf H. rewrite run_app in H.
  destruct (run c init_sim pre) as [s1|e] eqn:E1; [|discriminate H].
  assert (HI1 : Inv c s1) by (eapply run_inv; [exact Hwf|apply inv_init|exact E1]).
  cbn [run] in H. destruct (do_step c s1 (SIdle snap)) as [s2|e] eqn:E2; [|discriminate H].
  inversion H; subst s'. clear H.
  assert (HI2 : Inv c s2) by (eapply step_inv; eassumption).
  unfold do_step in E2. cbv zeta in E2.
  destruct (sE (drain c (start_running c s1))) eqn:HE; [|discriminate E2].
  destruct (snapshot_ok (so (drain c (start_running c s1))) 0%nat snap) eqn:Hs; simpl in E2;
    [|discriminate E2].
  destruct (Nat.eqb (List.length snap) (List.length c)); [|discriminate E2].
  inversion E2; subst s2; clear E2. simpl in *. split; [|split; [exact Hs|reflexivity]].
  intros b. apply HI2; [reflexivity|]. intros [H|(q & Hq & _)]; destruct H || destruct Hq.
Qed.

(* ---------- C10: the evaluation counter ---------- *)
Definition cnt_ok (c : circuit) (s : sim) : Prop := (scnt s <= eval_limit c)%nat.

Lemma step_cnt c s x s' : cnt_ok c s -> do_step c s x = Ok s' -> cnt_ok c s'.
Proof.
  unfold cnt_ok. intros Hc. destruct x as [j v|i v|snap|]; unfold do_step; cbv zeta.
  - destruct (nth_error c j) as [[|f ins]|]; try discriminate.
    destruct (py_eq (so s j) v); intros H; inversion H; subst; simpl; exact Hc.
  - destruct (mem i _); [|discriminate].
    destruct (Nat.ltb (eval_limit c) (S (scnt (drain c (start_running c s))))) eqn:L; [discriminate|].
    apply Nat.ltb_ge in L.
    destruct (calc c _ i) as [[v'|e]|]; try discriminate.
    destruct (py_eq v v'); [|discriminate].
    destruct (py_eq _ v'); intros H; inversion H; subst; simpl; exact L.
  - destruct (sE _); [|discriminate]. destruct (_ && _); [|discriminate].
    intros H; inversion H; subst; simpl. lia.
  - destruct (sE _); [discriminate|]. destruct (Nat.ltb _ _); [|discriminate].
    intros H; inversion H; subst; simpl. unfold start_running.
    destruct (srunning s); simpl; [exact Hc|lia].
Qed.

(* number of evaluations since the last idle point *)
Fixpoint evals_since_idle (xs : list step) (acc : nat) : nat :=
  match xs with
  | [] => acc
  | SEval _ _ :: r => evals_since_idle r (S acc)
  | SIdle _ :: r => evals_since_idle r 0
  | _ :: r => evals_since_idle r acc
  end.

Lemma scnt_start_running c s : srunning s = true \/ scnt s = 0%nat ->
  scnt (start_running c s) = scnt s.
Proof. unfold start_running. intros [H|H]; destruct (srunning s); simpl; congruence. Qed.

Lemma run_counts c xs : forall s s', (srunning s = true \/ scnt s = 0%nat) ->
  run c s xs = Ok s' -> scnt s' = evals_since_idle xs (scnt s) /\ (srunning s' = true \/ scnt s' = 0%nat).
Proof.
  induction xs as [|x r IH]; intros s s' Hs; simpl.
  - intros H; inversion H; subst. auto.
  - destruct (do_step c s x) as [s1|e] eqn:E; [|discriminate]. intros Hr.
    assert (G : scnt s1 = match x with SEval _ _ => S (scnt s) | SIdle _ => 0%nat | _ => scnt s end
                /\ (srunning s1 = true \/ scnt s1 = 0%nat)).
    { clear IH Hr. destruct x as [j v|i v|snap|]; unfold do_step in E; cbv zeta in E.
      - destruct (nth_error c j) as [[|f ins]|]; try discriminate E.
        destruct (py_eq (so s j) v); inversion E; subst; simpl; auto.
      - destruct (mem i _); [|discriminate E]. destruct (Nat.ltb _ _); [discriminate E|].
        destruct (calc c _ i) as [[v'|e]|]; try discriminate E.
        destruct (py_eq v v'); [|discriminate E].
        destruct (py_eq _ v'); inversion E; subst; simpl; rewrite (scnt_start_running c s Hs); auto.
      - destruct (sE _); [|discriminate E]. destruct (_ && _); [|discriminate E].
        inversion E; subst; simpl; auto.
      - destruct (sE _); [discriminate E|]. destruct (Nat.ltb _ _); [|discriminate E].
        inversion E; subst. simpl. rewrite (scnt_start_running c s Hs). split; [reflexivity|].
        simpl. left. apply start_running_running. }
    destruct G as [G1 G2]. destruct (IH s1 s' G2 Hr) as [I1 I2]. split; [|exact I2].
    rewrite I1, G1. destruct x; reflexivity.
Qed.

(* no accepted schedule contains more than eval_limit evaluations in one burst: the
   (limit+1)-th attempt is not an accepted evaluation (it is the instability error) *)
Theorem burst_eval_bound c xs s' :
  run c init_sim xs = Ok s' -> (evals_since_idle xs 0 <= eval_limit c)%nat.
Proof.
  intros H.
  destruct (run_counts c xs init_sim s' (or_intror eq_refl) H) as [E _]. simpl in E. rewrite <- E.
  assert (G : forall ys s t, cnt_ok c s -> run c s ys = Ok t -> cnt_ok c t).
  { induction ys as [|y r IH]; intros s t Hc; simpl; [intros R; inversion R; subst; exact Hc|].
    destruct (do_step c s y) as [s1|e] eqn:E1; [|discriminate].
    apply IH. eapply step_cnt; eassumption. }
  apply (G xs init_sim s'); [unfold cnt_ok; simpl; lia|exact H].
Qed.

Theorem unstable_only_at_limit c pre s' :
  run c init_sim (pre ++ [SUnstable]) = Ok s' -> evals_since_idle pre 0 = eval_limit c.
Proof.
  intros H. rewrite run_app in H. destruct (run c init_sim pre) as [s1|e] eqn:E1; [|discriminate H].
  destruct (run_counts c pre init_sim s1 (or_intror eq_refl) E1) as [Ec Hs]. simpl in Ec.
  assert (Hle : (evals_since_idle pre 0 <= eval_limit c)%nat) by (eapply burst_eval_bound; exact E1).
  cbn [run] in H. destruct (do_step c s1 SUnstable) as [s2|e] eqn:E2; [|discriminate H].
  unfold do_step in E2. cbv zeta in E2. destruct (sE _); [discriminate E2|].
  destruct (Nat.ltb _ _) eqn:L; [|discriminate E2]. apply Nat.ltb_lt in L.
  simpl in L. rewrite (scnt_start_running c s1 Hs) in L. lia.
Qed.

(* ---------- specifications of the library functions ---------- *)
Theorem not_spec own x : apply_fun FNot own [("_"%string, VG [x])] = Ok (VBool (negb (truthy x))).
Proof. reflexivity. Qed.
Theorem and_spec own l : apply_fun FAnd own [("_"%string, VG l)] = Ok (VBool (forallb truthy l)).
Proof. reflexivity. Qed.
Theorem or_spec own l : apply_fun FOr own [("_"%string, VG l)] = Ok (VBool (existsb truthy l)).
Proof. reflexivity. Qed.
Lemma odd_of_nat n : Z.odd (Z.of_nat n) = Nat.odd n.
Proof.
  induction n as [|n IH]; [reflexivity|].
  rewrite Nat2Z.inj_succ, Z.odd_succ, Nat.odd_succ, <- Z.negb_odd, <- Nat.negb_odd, IH. reflexivity.
Qed.

Theorem xor_spec own l :
  apply_fun FXor own [("_"%string, VG l)] = Ok (VBool (Nat.odd (List.length (filter truthy l)))).
Proof. simpl. unfold count_truthy. now rewrite odd_of_nat. Qed.
Theorem override_spec own null i o :
  apply_fun (FOverride null) own [("input"%string, VS i); ("override"%string, VS o)]
  = Ok (if py_eq o null then i else o).
Proof. reflexivity. Qed.

(* Compare: >= high -> True, < low -> False, in between -> previous output *)
Theorem compare_spec lo hi own x q : lo <= hi -> num_of x = Some q ->
  exists r, apply_fun (FCompare lo hi) own [("_"%string, VG [x])] = Ok (VBool r) /\
    (hi <= q -> r = true) /\ (q < lo -> r = false) /\
    (lo <= q -> q < hi -> own <> VUndef -> r = truthy own).
Proof.
  intros Hlh Hq. simpl. rewrite Hq. eexists. split; [reflexivity|].
  destruct (compare_thr_bounds lo hi own Hlh) as [B1 B2]. repeat split.
  - intros H. apply Qle_bool_iff. eapply Qle_trans; eassumption.
  - intros H. destruct (Qle_bool (compare_thr lo hi own) q) eqn:E; [|reflexivity].
    apply Qle_bool_iff in E. exfalso. apply (Qlt_not_le _ _ H). eapply Qle_trans; eassumption.
  - intros H1 H2 Hu. unfold compare_thr. destruct own; try congruence;
      destruct (truthy _) eqn:T; rewrite ?T;
      try (apply Qle_bool_iff; exact H1);
      try (destruct (Qle_bool hi q) eqn:E; [apply Qle_bool_iff in E; exfalso;
           apply (Qlt_not_le _ _ H2 E)|reflexivity]).
Qed.

(* ---------- progress ---------- *)
Definition circ_calc_ok (c : circuit) (o : outs) (i : nat) : Prop :=
  exists v, calc c o i = Some (Ok v).

Theorem burst_progress c s i :
  In i (sE (drain c (start_running c s))) -> circ_calc_ok c (so (start_running c s)) i ->
  (exists v s', do_step c s (SEval i v) = Ok s') \/ (exists s', do_step c s SUnstable = Ok s').
Proof.
  intros Hin [v Hv]. unfold do_step. cbv zeta.
  destruct (Nat.ltb (eval_limit c) (S (scnt (drain c (start_running c s))))) eqn:L.
  - right. destruct (sE (drain c (start_running c s))) eqn:E; [destruct Hin|]. eexists. reflexivity.
  - left. exists v. apply mem_In in Hin. rewrite Hin.
    change (so (drain c (start_running c s))) with (so (start_running c s)). rewrite Hv, py_eq_refl.
    destruct (py_eq (so (start_running c s) i) v); eexists; reflexivity.
Qed.
