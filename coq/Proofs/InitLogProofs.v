(* C05: each initialization routine is only ever called for a block that has it:
   _restore_state only for persistent blocks with a saved state, init_from_value only with an
   initdef, init_async only with a positive init_timeout. *)
From Verif Require Import Values Init InitProofs.
Open Scope list_scope.
Open Scope Z_scope.

Definition call_ok (T : list ispec) (c : call) : Prop :=
  match c with
  | CRestore b => is_persistent (spec_of T b) = true /\ is_restore (spec_of T b) <> RAbsent
  | CFromValue b => is_initdef (spec_of T b) = true
  | CAsync b => exists tmo sc, is_async (spec_of T b) = Some (tmo, sc) /\ 0 < tmo
  | CRegular _ | CHandler _ => True
  end.
Definition LogOk (T : list ispec) (s : istate) : Prop := forall c, In c (ilog s) -> call_ok T c.

Section Log.
Variable T : list ispec.

Lemma LogOk_same s s' : ilog s' = ilog s -> LogOk T s -> LogOk T s'.
Proof. unfold LogOk. intros ->. auto. Qed.
Lemma LogOk_add s c : call_ok T c -> LogOk T s -> LogOk T (add_log s c).
Proof.
  intros Hc H c' Hin. simpl in Hin. apply in_app_or in Hin as [Hin|[<-|[]]]; [now apply H|exact Hc].
Qed.

Lemma fold_LogOk {A} (g : istate -> A -> istate) (l : list A) :
  (forall s a, LogOk T s -> LogOk T (g s a)) -> forall s, LogOk T s -> LogOk T (fold_left g l s).
Proof.
  intros Hg. induction l as [|a r IH]; intros s Hs; simpl; [exact Hs|]. apply IH, Hg, Hs.
Qed.

Ltac same := apply LogOk_same; [reflexivity|].

Lemma log_mutual fuel : forall s b,
  (LogOk T s -> LogOk T (set_output fuel T s b)) /\
  (LogOk T s -> LogOk T (event_put fuel T s b)) /\
  (forall full, LogOk T s -> LogOk T (init_sblock fuel T s b full)).
Proof.
  induction fuel as [|f IH]; intros s b.
  - simpl. repeat split; intros; (eapply LogOk_same; [|eassumption]); reflexivity.
  - assert (IHo : forall s b, LogOk T s -> LogOk T (set_output f T s b)) by (intros; now apply IH).
    assert (IHe : forall s b, LogOk T s -> LogOk T (event_put f T s b)) by (intros; now apply IH).
    assert (IHi : forall s b full, LogOk T s -> LogOk T (init_sblock f T s b full)) by (intros; now apply IH).
    split; [|split].
    + intros Hs. cbn [set_output]. destruct (halt s); [exact Hs|]. destruct (inited s b); [exact Hs|].
      apply fold_LogOk; [intros; now apply IHe|]. eapply LogOk_same; [|exact Hs]. reflexivity.
    + intros Hs. cbn [event_put]. destruct (halt s); [exact Hs|].
      destruct (active s b); [eapply LogOk_same; [|exact Hs]; reflexivity|]. cbv zeta.
      set (s0 := set_active s b true).
      assert (H0 : LogOk T s0) by (eapply LogOk_same; [|exact Hs]; reflexivity).
      set (s1 := if (0 <=? steps s0 b) && (steps s0 b <? 2) then _ else s0).
      assert (H1 : LogOk T s1).
      { subst s1. destruct ((0 <=? steps s0 b) && (steps s0 b <? 2)); [|exact H0].
        assert (W : LogOk T (init_sblock f T (set_active s0 b false) b true))
          by (apply IHi; eapply LogOk_same; [|exact H0]; reflexivity).
        destruct (iexn _); (eapply LogOk_same; [|exact W]); reflexivity. }
      destruct (halt s1); [eapply LogOk_same; [|exact H1]; reflexivity|].
      set (s2 := add_log s1 (CHandler b)).
      assert (H2 : LogOk T s2) by (apply LogOk_add; [exact I|exact H1]).
      set (s3 := if is_handler_sets (spec_of T b) then _ else s2).
      assert (H3 : LogOk T s3) by (subst s3; destruct (is_handler_sets _); [now apply IHo|exact H2]).
      destruct (iexn s3); (eapply LogOk_same; [|exact H3]); reflexivity.
    + intros full Hs. cbn [init_sblock]. destruct (halt s); [exact Hs|]. cbv zeta.
      set (s1 := if steps s b =? 0 then _ else s).
      assert (H1 : LogOk T s1).
      { subst s1. destruct (steps s b =? 0); [|exact Hs].
        set (s' := set_steps s b (-1)).
        assert (H' : LogOk T s') by (eapply LogOk_same; [|exact Hs]; reflexivity).
        set (s'' := if is_persistent (spec_of T b) then _ else s').
        assert (H'' : LogOk T s'').
        { subst s''. destruct (is_persistent (spec_of T b)) eqn:Ep; [|exact H'].
          destruct (is_restore (spec_of T b)) eqn:Er; [exact H'| | |];
            try (apply LogOk_add; [split; [exact Ep|rewrite Er; discriminate]|exact H']).
          eapply LogOk_same; [reflexivity|]. apply IHo.
          apply LogOk_add; [split; [exact Ep|rewrite Er; discriminate]|exact H']. }
        destruct (ierr s''); [exact H''|eapply LogOk_same; [|exact H'']; reflexivity]. }
      destruct (halt s1); [exact H1|].
      destruct ((steps s b =? 1) || ((steps s b =? 0) && full)); [|exact H1].
      set (s2 := add_log (set_steps s1 b (-2)) (CRegular b)).
      assert (H2 : LogOk T s2)
        by (apply LogOk_add; [exact I|eapply LogOk_same; [|exact H1]; reflexivity]).
      set (s3 := match is_regular (spec_of T b) with GNoEffect => s2 | GSets => _ | GRaises => _ end).
      assert (H3 : LogOk T s3).
      { subst s3. destruct (is_regular _); [exact H2|now apply IHo|eapply LogOk_same; [|exact H2]; reflexivity]. }
      destruct (halt s3); [exact H3|].
      set (s4 := if negb (inited s3 b) && is_initdef (spec_of T b) then _ else s3).
      assert (H4 : LogOk T s4).
      { subst s4. destruct (negb (inited s3 b)); cbn [andb]; [|exact H3].
        destruct (is_initdef (spec_of T b)) eqn:Ei; [|exact H3].
        apply IHo. apply LogOk_add; [exact Ei|exact H3]. }
      destruct (halt s4); [exact H4|eapply LogOk_same; [|exact H4]; reflexivity].
Qed.

Lemma sync_pass_LogOk s : LogOk T s -> LogOk T (sync_pass T s).
Proof.
  unfold sync_pass. apply fold_LogOk. intros s0 b Hs0.
  pose proof (proj2 (proj2 (log_mutual (fuel_of T) s0 b)) false Hs0) as W. cbv zeta.
  destruct (iexn _); [eapply LogOk_same; [|exact W]; reflexivity|exact W].
Qed.

Lemma async_phase_LogOk s : LogOk T s -> LogOk T (fst (async_phase T s)).
Proof.
  intros Hs. unfold async_phase. cbv zeta.
  destruct (run_tasks (sort_tasks (async_started T s)) 0 []) as [tend fin]. simpl.
  apply fold_LogOk.
  - intros s0 fx Hs0. destruct (snd fx); try exact Hs0;
      (eapply LogOk_same; [reflexivity|]); now apply (proj1 (log_mutual (fuel_of T) s0 _)).
  - assert (G : forall l s0, (forall t, In t l -> In t (async_started T s)) -> LogOk T s0 ->
                LogOk T (fold_left (fun acc t => add_log acc (CAsync (fst (fst t)))) l s0)).
    { induction l as [|t r IH]; intros s0 Hl Hs0; simpl; [exact Hs0|].
      apply IH; [intros t' Ht'; apply Hl; now right|].
      apply LogOk_add; [|exact Hs0].
      destruct t as [[b tmo] sc]. pose proof (Hl _ (or_introl eq_refl)) as Hin.
      unfold async_started in Hin. apply in_flat_map in Hin as (b' & _ & Hin).
      destruct (is_async (spec_of T b')) as [[tmo' sc']|] eqn:Ea; [|destruct Hin].
      destruct (negb (inited s b') && (0 <? tmo')) eqn:Eg; [|destruct Hin].
      destruct Hin as [Hin|[]]. inversion Hin; subst. simpl.
      apply andb_true_iff in Eg as [_ Eg]. apply Z.ltb_lt in Eg. eauto. }
    apply G; [auto|exact Hs].
Qed.

Lemma pre_phase_LogOk s : LogOk T s -> LogOk T (pre_phase T s).
Proof.
  unfold pre_phase. apply fold_LogOk. intros s0 b Hs0.
  destruct (is_async (spec_of T b)) as [[tmo sc]|]; [|exact Hs0].
  destruct sc; try exact Hs0. destruct (d =? 0); [|exact Hs0]. cbv zeta.
  pose proof (proj1 (log_mutual (fuel_of T) s0 b) Hs0) as W.
  destruct (iexn _); [eapply LogOk_same; [|exact W]; reflexivity|exact W].
Qed.

(* every call in the log of a start-up is a call of a routine the block has *)
Theorem routines_only_where_they_exist :
  forall c, In c (ilog (fst (fst (run_init T)))) -> call_ok T c.
Proof.
  assert (H0 : LogOk T istate0) by (intros c []).
  pose proof (sync_pass_LogOk _ (pre_phase_LogOk _ H0)) as H1.
  unfold run_init. cbv zeta.
  destruct (ierr (sync_pass T (pre_phase T istate0))); [exact H1|].
  pose proof (async_phase_LogOk _ H1) as H2.
  destruct (async_phase T (sync_pass T (pre_phase T istate0))) as [s2 tend]. simpl in H2.
  destruct (ierr s2); [exact H2|]. simpl. now apply sync_pass_LogOk.
Qed.

End Log.
