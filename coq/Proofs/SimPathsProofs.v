(* C10, second half: a circuit that settles is not stopped.  For a topologically numbered
   network the number of evaluations in a burst without feedback is bounded by the number of
   paths, so the instability error cannot be raised when path_sum c <= eval_limit c. *)
From Verif Require Import Values Sim SimProofs.
From Coq Require Import Lia.
Open Scope list_scope.
Open Scope nat_scope.

Definition nblocks (c : circuit) : nat := List.length c.
Definition sumf (f : nat -> nat) (l : list nat) : nat := fold_left (fun acc p => acc + f p) l 0.
Definition bump (ev : nat -> nat) (i : nat) : nat -> nat := fun k => if Nat.eqb k i then S (ev k) else ev k.
Definition ind (b : bool) : nat := if b then 1 else 0.
Definition P (c : circuit) (b : nat) : nat := nth b (paths_upto c (nblocks c)) 0.

(* ---------- sums ---------- *)
Lemma fold_add_gen (f : nat -> nat) (l : list nat) : forall a b, fold_left (fun acc p => acc + f p) l (a + b) = a + fold_left (fun acc p => acc + f p) l b.
Proof.
  induction l as [|x r IH]; intros a b; simpl; [reflexivity|].
  rewrite <- Nat.add_assoc. apply IH.
Qed.
Lemma fold_add_acc (f : nat -> nat) (l : list nat) : forall a, fold_left (fun acc p => acc + f p) l a = a + sumf f l.
Proof. intros a. unfold sumf. rewrite <- (fold_add_gen f l a 0). now rewrite Nat.add_0_r. Qed.
Lemma sumf_cons f x r : sumf f (x :: r) = f x + sumf f r.
Proof. unfold sumf at 1. simpl. rewrite fold_add_acc. lia. Qed.
Lemma sumf_nil f : sumf f [] = 0.
Proof. reflexivity. Qed.

Lemma sumf_le f g l : (forall x, In x l -> f x <= g x) -> sumf f l <= sumf g l.
Proof.
  induction l as [|x r IH]; intros H; [reflexivity|]. rewrite !sumf_cons.
  pose proof (H x (or_introl eq_refl)). assert (sumf f r <= sumf g r) by (apply IH; intros; apply H; now right). lia.
Qed.

Lemma sumf_bump ev i l : NoDup l -> sumf (bump ev i) l = sumf ev l + ind (mem i l).
Proof.
  induction l as [|x r IH]; intros Hnd; [reflexivity|].
  inversion Hnd as [|? ? Hx Hr]; subst. rewrite !sumf_cons, (IH Hr). unfold bump at 1, mem. simpl.
  destruct (Nat.eqb x i) eqn:E.
  - apply Nat.eqb_eq in E. subst x. rewrite Nat.eqb_refl. simpl.
    assert (existsb (Nat.eqb i) r = false) as ->.
    { destruct (existsb (Nat.eqb i) r) eqn:M; [|reflexivity].
      exfalso. apply Hx. apply mem_In. exact M. }
    simpl. lia.
  - rewrite Nat.eqb_sym, E. simpl. unfold mem. lia.
Qed.

Lemma sumf_strict f g l x : In x l -> f x < g x -> (forall y, In y l -> f y <= g y) -> sumf f l < sumf g l.
Proof.
  induction l as [|y r IH]; intros Hin Hlt Hle; [destruct Hin|]. rewrite !sumf_cons.
  destruct Hin as [->|Hin].
  - assert (sumf f r <= sumf g r) by (apply sumf_le; intros; apply Hle; now right). lia.
  - pose proof (Hle y (or_introl eq_refl)).
    assert (sumf f r < sumf g r) by (apply IH; auto; intros; apply Hle; now right). lia.
Qed.

(* ---------- the path counts ---------- *)
Lemma paths_len c k : List.length (paths_upto c k) = k.
Proof. induction k as [|k IH]; simpl; [reflexivity|]. rewrite app_length, IH. simpl. lia. Qed.

Lemma paths_prefix c k n b : b < k -> k <= n -> nth b (paths_upto c n) 0 = nth b (paths_upto c k) 0.
Proof.
  intros Hb Hk. induction n as [|n IH]; [lia|].
  destruct (Nat.eq_dec k (S n)) as [->|Hne]; [reflexivity|].
  simpl. rewrite app_nth1 by (rewrite paths_len; lia). apply IH. lia.
Qed.

Lemma paths_at c b n : b < n ->
  nth b (paths_upto c n) 0 =
  if is_cblock c b then S (sumf (fun p => nth p (paths_upto c b) 0) (cpreds c b)) else 0.
Proof.
  intros Hb. rewrite (paths_prefix c (S b) n b) by lia. simpl.
  rewrite app_nth2 by (rewrite paths_len; lia). rewrite paths_len, Nat.sub_diag. simpl.
  destruct (is_cblock c b); reflexivity.
Qed.

Lemma topo_reads c b p : topo c = true -> reads c b p = true -> p < nblocks c -> p < b.
Proof.
  intros T R Hp. unfold topo in T. rewrite forallb_forall in T.
  pose proof (reads_lt _ _ _ R) as Hb.
  specialize (T b). rewrite forallb_forall in T.
  assert (In b (seq 0 (List.length c))) as Ib by (apply in_seq; lia).
  specialize (T Ib p). assert (In p (seq 0 (List.length c))) as Ip by (apply in_seq; unfold nblocks in Hp; lia).
  specialize (T Ip). rewrite R in T. simpl in T. now apply Nat.ltb_lt in T.
Qed.

Lemma cpreds_in c b p : In p (cpreds c b) <-> p < nblocks c /\ is_cblock c p = true /\ reads c b p = true.
Proof.
  unfold cpreds, nblocks. rewrite filter_In, in_seq, andb_true_iff. split; intros H; intuition lia.
Qed.
Lemma cpreds_nodup c b : NoDup (cpreds c b).
Proof. unfold cpreds. apply NoDup_filter, seq_NoDup. Qed.

Lemma P_eq c b : topo c = true -> b < nblocks c ->
  P c b = if is_cblock c b then S (sumf (P c) (cpreds c b)) else 0.
Proof.
  intros T Hb. unfold P at 1. rewrite paths_at by exact Hb.
  destruct (is_cblock c b); [|reflexivity]. f_equal.
  unfold sumf.
  (* the two summands agree on every predecessor *)
  assert (E : forall l a, (forall p, In p l -> p < b) ->
     fold_left (fun acc p => acc + nth p (paths_upto c b) 0) l a = fold_left (fun acc p => acc + P c p) l a).
  { induction l as [|x r IH]; intros a Hl; simpl; [reflexivity|].
    unfold P at 2. rewrite (paths_prefix c b (nblocks c) x) by (try apply Hl; try (now left); lia).
    apply IH. intros; apply Hl; now right. }
  apply E. intros p Hp. apply cpreds_in in Hp as (Hp & _ & R). eapply topo_reads; eassumption.
Qed.

Lemma path_sum_eq c : path_sum c = sumf (P c) (seq 0 (nblocks c)).
Proof.
  unfold path_sum, P, nblocks.
  assert (G : forall l n, List.length l = n -> fold_left Nat.add l 0 = sumf (fun b => nth b l 0) (seq 0 n)).
  { intros l. induction l as [|x r IH] using rev_ind; intros n Hn.
    - simpl in Hn. subst. reflexivity.
    - rewrite app_length in Hn. simpl in Hn. destruct n as [|n]; [lia|].
      rewrite fold_left_app. cbn [fold_left]. rewrite (IH n) by lia.
      rewrite seq_S. cbn [Nat.add].
      unfold sumf at 2. rewrite fold_left_app. cbn [fold_left].
      fold (sumf (fun b => nth b (r ++ [x]) 0) (seq 0 n)).
      rewrite app_nth2 by lia. replace (n - List.length r) with 0 by lia. cbn [nth].
      f_equal.
      unfold sumf.
      assert (E : forall l2 a, (forall y, In y l2 -> y < List.length r) ->
         fold_left (fun acc p => acc + nth p r 0) l2 a = fold_left (fun acc p => acc + nth p (r ++ [x]) 0) l2 a).
      { induction l2 as [|y l2 IH2]; intros a Hy; cbn [fold_left]; [reflexivity|].
        rewrite (app_nth1 r [x] 0) by (apply Hy; now left). apply IH2. intros; apply Hy; now right. }
      apply E. intros y Hy. apply in_seq in Hy. lia. }
  apply G. apply paths_len.
Qed.

(* ---------- the ghost invariant of a burst ---------- *)
Record J (c : circuit) (s : sim) (ev : nat -> nat) : Prop := {
  j_run : srunning s = true;
  j_q : sQ s = [];
  j_E : forall b, In b (sE s) -> b < nblocks c /\ is_cblock c b = true;
  j_ev0 : forall b, is_cblock c b = false -> ev b = 0;
  j_star : forall b, b < nblocks c -> ev b + ind (mem b (sE s)) <= 1 + sumf ev (cpreds c b);
  j_cnt : scnt s = sumf ev (seq 0 (nblocks c)) }.

Lemma drain_id c s : srunning s = true -> sQ s = [] -> drain c (start_running c s) = s.
Proof.
  intros R Q. unfold start_running. rewrite R. unfold drain. rewrite Q. simpl. rewrite app_nil_r.
  destruct s; simpl in *; subst; reflexivity.
Qed.

Lemma reads_cblock c b i : reads c b i = true -> is_cblock c b = true.
Proof. unfold reads, is_cblock. destruct (nth_error c b) as [[|f ins]|]; try discriminate; auto. Qed.

Lemma succs_in c i b : In b (succs c i) <-> b < nblocks c /\ reads c b i = true.
Proof. unfold succs, nblocks. rewrite filter_In, in_seq. intuition lia. Qed.

Lemma mem_false_notin i l : mem i l = false <-> ~ In i l.
Proof. rewrite <- mem_In. destruct (mem i l); split; intros H; try discriminate; auto. exfalso; auto. Qed.

(* one evaluation preserves the invariant *)
Lemma J_eval c s ev i v s' : topo c = true ->
  J c s ev -> do_step c s (SEval i v) = Ok s' -> J c s' (bump ev i).
Proof.
  intros T [R Q HE H0 Hst Hc] Hd. cbn [do_step] in Hd.
  rewrite (drain_id c s R Q) in Hd.
  destruct (mem i (sE s)) eqn:Mi; [|discriminate].
  destruct (Nat.ltb (eval_limit c) (S (scnt s))); [discriminate|].
  destruct (calc c (so s) i) as [[v'|e]|]; try discriminate.
  destruct (py_eq v v'); [|discriminate].
  apply mem_In in Mi. destruct (HE i Mi) as [Hi Ci].
  assert (Hself : reads c i i = false).
  { destruct (reads c i i) eqn:Rd; [|reflexivity]. pose proof (topo_reads c i i T Rd Hi). lia. }
  assert (Hcnt : forall sc, sc = sumf ev (seq 0 (nblocks c)) -> S sc = sumf (bump ev i) (seq 0 (nblocks c))).
  { intros sc ->. rewrite sumf_bump by apply seq_NoDup.
    assert (mem i (seq 0 (nblocks c)) = true) as -> by (apply mem_In, in_seq; lia). simpl. lia. }
  assert (Hev0 : forall b, is_cblock c b = false -> bump ev i b = 0).
  { intros b Hb. unfold bump. destruct (Nat.eqb b i) eqn:E; [apply Nat.eqb_eq in E; subst; congruence|auto]. }
  (* the new E is either rm i E or rm i E ++ succs c i *)
  assert (Hmain : forall E', (E' = rm i (sE s) \/ E' = rm i (sE s) ++ succs c i) ->
     (forall b, In b E' -> b < nblocks c /\ is_cblock c b = true) /\
     (forall b, b < nblocks c -> bump ev i b + ind (mem b E') <= 1 + sumf (bump ev i) (cpreds c b))).
  { intros E' HE'. split.
    - intros b Hb. destruct HE' as [->| ->].
      + apply in_rm in Hb as [Hb _]. auto.
      + apply in_app_or in Hb as [Hb|Hb]; [apply in_rm in Hb as [Hb _]; auto|].
        apply succs_in in Hb as [Hb Rb]. split; [exact Hb|eapply reads_cblock; exact Rb].
    - intros b Hb. rewrite sumf_bump by apply cpreds_nodup.
      specialize (Hst b Hb).
      destruct (Nat.eq_dec b i) as [->|Hne].
      + (* the evaluated block itself leaves E *)
        assert (mem i E' = false) as ->.
        { apply mem_false_notin. intros Hin. destruct HE' as [->| ->].
          - apply in_rm in Hin as [_ Hn]. now apply Hn.
          - apply in_app_or in Hin as [Hin|Hin]; [apply in_rm in Hin as [_ Hn]; now apply Hn|].
            apply succs_in in Hin as [_ Rd]. congruence. }
        unfold bump at 1. rewrite Nat.eqb_refl.
        assert (mem i (sE s) = true) as Hm by (now apply mem_In). rewrite Hm in Hst. simpl in *. lia.
      + unfold bump at 1. apply Nat.eqb_neq in Hne as Hne'. rewrite Hne'.
        destruct (reads c b i) eqn:Rb.
        * (* b reads i: one more credit *)
          assert (mem i (cpreds c b) = true) as -> by (apply mem_In, cpreds_in; auto).
          destruct (mem b E'), (mem b (sE s)); simpl in *; lia.
        * assert (mem b E' = mem b (sE s)) as ->.
          { destruct (mem b (sE s)) eqn:M.
            - apply mem_In. apply mem_In in M. destruct HE' as [->| ->];
                [|apply in_or_app; left]; apply in_rm; auto.
            - apply mem_false_notin. apply mem_false_notin in M. intros Hin. apply M.
              destruct HE' as [->| ->].
              + now apply in_rm in Hin as [Hin _].
              + apply in_app_or in Hin as [Hin|Hin]; [now apply in_rm in Hin as [Hin _]|].
                apply succs_in in Hin as [_ Rd]. congruence. }
          lia. }
  destruct (py_eq (so s i) v'); inversion Hd; subst s'; clear Hd.
  - destruct (Hmain (rm i (sE s)) (or_introl eq_refl)) as [A B].
    constructor; simpl; auto.
  - destruct (Hmain (rm i (sE s) ++ succs c i) (or_intror eq_refl)) as [A B].
    constructor; simpl; auto.
Qed.

(* from the local inequality to the path bound, by induction along the numbering *)
Lemma J_bound c s ev : topo c = true -> J c s ev ->
  forall b, b < nblocks c -> ev b + ind (mem b (sE s)) <= P c b.
Proof.
  intros T [R Q HE H0 Hst Hc].
  assert (G : forall n b, b < n -> b < nblocks c -> ev b + ind (mem b (sE s)) <= P c b).
  { induction n as [|n IH]; intros b Hb Hbn; [lia|].
    rewrite P_eq by assumption.
    destruct (is_cblock c b) eqn:Cb.
    - specialize (Hst b Hbn).
      assert (sumf ev (cpreds c b) <= sumf (P c) (cpreds c b)).
      { apply sumf_le. intros p Hp. apply cpreds_in in Hp as (Hp & _ & Rp).
        pose proof (topo_reads c b p T Rp Hp). specialize (IH p ltac:(lia) Hp). lia. }
      lia.
    - rewrite (H0 b Cb).
      assert (mem b (sE s) = false) as ->; [|simpl; lia].
      apply mem_false_notin. intros Hin. destruct (HE b Hin). congruence. }
  intros b Hb. apply (G (S b)); lia.
Qed.

(* with few paths the instability error is impossible in such a burst *)
Theorem J_no_unstable c s ev : topo c = true -> path_sum c <= eval_limit c ->
  J c s ev -> do_step c s SUnstable = Err EOther.
Proof.
  intros T Hp HJ. pose proof (J_bound c s ev T HJ) as B.
  destruct HJ as [R Q HE H0 Hst Hc]. cbn [do_step]. rewrite (drain_id c s R Q).
  destruct (sE s) as [|b0 r] eqn:E; [reflexivity|].
  assert (Hb0 : b0 < nblocks c) by (apply HE; now left).
  assert (sumf ev (seq 0 (nblocks c)) < sumf (P c) (seq 0 (nblocks c))).
  { apply sumf_strict with (x := b0).
    - apply in_seq. lia.
    - specialize (B b0 Hb0). assert (mem b0 (b0 :: r) = true) as M by (apply mem_In; now left).
      rewrite M in B. simpl in B. lia.
    - intros y Hy. apply in_seq in Hy. specialize (B y ltac:(lia)). lia. }
  rewrite <- path_sum_eq in H.
  assert (Nat.ltb (eval_limit c) (S (scnt s)) = false) as ->; [|reflexivity].
  apply Nat.ltb_ge. lia.
Qed.

(* the start of a burst: nothing evaluated yet; what is due comes from the initial set of all
   combinational blocks or from the queue of changed sequential blocks *)
Definition burst_start (c : circuit) (s : sim) : Prop :=
  scnt s = 0 /\ (srunning s = false \/ sE s = []).

Lemma J_first c s i v s' : topo c = true -> burst_start c s ->
  do_step c s (SEval i v) = Ok s' -> J c s' (bump (fun _ => 0) i).
Proof.
  intros T [Hc Hs] Hd.
  (* the first evaluation works on s1 = drain (start_running s), which satisfies J with ev = 0
     except that it is written as a derived state; replay the step from s1 *)
  set (s1 := drain c (start_running c s)).
  assert (R1 : srunning s1 = true) by (unfold s1, drain; simpl; apply start_running_running).
  assert (Q1 : sQ s1 = []) by reflexivity.
  assert (E1 : forall b, In b (sE s1) -> b < nblocks c /\ is_cblock c b = true).
  { intros b Hb. unfold s1, drain in Hb. simpl in Hb. apply in_app_or in Hb as [Hb|Hb].
    - unfold start_running in Hb. destruct (srunning s) eqn:Rs.
      + destruct Hs as [Hs|Hs]; [congruence|]. rewrite Hs in Hb. destruct Hb.
      + simpl in Hb. unfold cblocks in Hb. apply filter_In in Hb as [Hb Cb]. apply in_seq in Hb.
        unfold nblocks. split; [lia|exact Cb].
    - apply in_flat_map in Hb as (j & _ & Hb). apply succs_in in Hb as [Hb Rb].
      split; [exact Hb|eapply reads_cblock; exact Rb]. }
  assert (C1 : scnt s1 = 0).
  { unfold s1, drain, start_running. destruct (srunning s); simpl; auto. }
  assert (J1 : J c s1 (fun _ => 0)).
  { constructor; auto.
    - intros b Hb. destruct (mem b (sE s1)); simpl; lia.
    - rewrite C1. clear. induction (seq 0 (nblocks c)) as [|x r IH]; [reflexivity|].
      rewrite sumf_cons. simpl. exact IH. }
  assert (Hd1 : do_step c s1 (SEval i v) = Ok s').
  { cbn [do_step] in *. rewrite (drain_id c s1 R1 Q1). exact Hd. }
  eapply J_eval; eassumption.
Qed.

Fixpoint all_evals (xs : list step) : bool :=
  match xs with [] => true | SEval _ _ :: r => all_evals r | _ :: _ => false end.

Lemma J_run c xs : topo c = true -> forall s ev s', all_evals xs = true ->
  J c s ev -> run c s xs = Ok s' -> exists ev', J c s' ev'.
Proof.
  intros T. induction xs as [|x r IH]; intros s ev s' Ha HJ Hr; simpl in *.
  - inversion Hr; subst. eauto.
  - destruct x as [| i v | |]; try discriminate.
    destruct (do_step c s (SEval i v)) as [s1|] eqn:E; [|discriminate].
    eapply IH; [exact Ha| |exact Hr]. eapply J_eval; eassumption.
Qed.

(* a burst made of evaluations only, started when nothing had been evaluated yet, on a
   topologically numbered circuit whose paths fit into the limit, cannot end with the
   instability error *)
Theorem acyclic_no_false_alarm c s xs s' :
  topo c = true -> path_sum c <= eval_limit c ->
  burst_start c s -> xs <> [] -> all_evals xs = true -> run c s xs = Ok s' ->
  do_step c s' SUnstable = Err EOther.
Proof.
  intros T Hp Hb Hne Ha Hr. destruct xs as [|x r]; [congruence|].
  destruct x as [| i v | |]; try (simpl in Ha; discriminate Ha). cbn [run] in Hr. cbn [all_evals] in Ha.
  destruct (do_step c s (SEval i v)) as [s1|e1] eqn:E; [|discriminate Hr].
  pose proof (J_first c s i v s1 T Hb E) as J1.
  destruct (J_run c r T s1 _ s' Ha J1 Hr) as [ev' J'].
  eapply J_no_unstable; eassumption.
Qed.

(* also before the first evaluation: with nothing evaluated the counter is 0 < limit+1 *)
Theorem no_false_alarm_at_start c s : burst_start c s -> (0 < nblocks c)%nat ->
  do_step c s SUnstable = Err EOther.
Proof.
  intros [Hc Hs] Hn. cbn [do_step].
  assert (scnt (drain c (start_running c s)) = 0) as C.
  { unfold drain, start_running. destruct (srunning s); simpl; auto. }
  destruct (sE (drain c (start_running c s))); [reflexivity|]. rewrite C.
  assert (Nat.ltb (eval_limit c) 1 = false) as ->; [|reflexivity].
  apply Nat.ltb_ge. unfold eval_limit, max_evals_per_block, nblocks in *. lia.
Qed.

(* where bursts start: initially, after every idle step, and set_output calls before the first
   evaluation keep it so *)
Lemma burst_start_init c : burst_start c init_sim.
Proof. split; [reflexivity|left; reflexivity]. Qed.

Lemma burst_start_idle c s snap s' : do_step c s (SIdle snap) = Ok s' -> burst_start c s'.
Proof.
  cbn [do_step]. destruct (sE (drain c (start_running c s))); [|discriminate].
  destruct (_ && _); [|discriminate]. intros H; inversion H; subst. split; [reflexivity|right; reflexivity].
Qed.

Lemma burst_start_set c s j v s' : burst_start c s -> do_step c s (SSet j v) = Ok s' -> burst_start c s'.
Proof.
  intros [Hc Hs]. cbn [do_step]. destruct (nth_error c j) as [[|f ins]|]; try discriminate.
  destruct (py_eq (so s j) v); intros H; inversion H; subst; split; simpl; auto.
Qed.

Fixpoint all_sets (xs : list step) : bool :=
  match xs with [] => true | SSet _ _ :: r => all_sets r | _ :: _ => false end.

Lemma burst_start_sets c xs : forall s s', all_sets xs = true -> burst_start c s ->
  run c s xs = Ok s' -> burst_start c s'.
Proof.
  induction xs as [|x r IH]; intros s s' Ha Hb Hr.
  - inversion Hr; subst. exact Hb.
  - destruct x as [j v| | |]; try (simpl in Ha; discriminate Ha). cbn [run] in Hr. cbn [all_sets] in Ha.
    destruct (do_step c s (SSet j v)) as [s1|e1] eqn:E; [|discriminate Hr].
    eapply IH; [exact Ha| |exact Hr]. eapply burst_start_set; eassumption.
Qed.

(* the complete shape the monitor calls "clean": set_output calls, then evaluations only *)
Theorem clean_burst_no_false_alarm c s sets evals s' :
  topo c = true -> path_sum c <= eval_limit c -> (0 < nblocks c) ->
  burst_start c s -> all_sets sets = true -> all_evals evals = true ->
  run c s (sets ++ evals) = Ok s' ->
  do_step c s' SUnstable = Err EOther.
Proof.
  intros T Hp Hn Hb Hs He Hr.
  destruct (run c s sets) as [s1|e1] eqn:R1.
  - rewrite (run_app c sets evals s) in Hr. rewrite R1 in Hr.
    pose proof (burst_start_sets c sets s s1 Hs Hb R1) as B1.
    destruct evals as [|x r].
    + inversion Hr; subst. now apply no_false_alarm_at_start.
    + eapply acyclic_no_false_alarm; try eassumption. discriminate.
  - rewrite (run_app c sets evals s) in Hr. rewrite R1 in Hr. discriminate Hr.
Qed.
