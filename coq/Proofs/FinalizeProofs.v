From Verif Require Import Values Finalize.
From Coq Require Import Permutation.
Open Scope string_scope.
Open Scope list_scope.

(* ---------- every reference style resolves to the right object ---------- *)
Lemma has_name_app bs b n : has_name (bs ++ [b]) n = has_name bs n || String.eqb (bd_name b) n.
Proof. unfold has_name. rewrite existsb_app. simpl. now rewrite orb_false_r. Qed.

Theorem validate_obj bs n : validate_blk bs (RObj n) = Ok (RBlk n, bs).
Proof. reflexivity. Qed.
Theorem validate_const bs v :
  validate_blk bs (RConstObj v) = Ok (RConst v, bs) /\ validate_blk bs (RVal v) = Ok (RConst v, bs).
Proof. split; reflexivity. Qed.
Theorem validate_foreign bs : validate_blk bs RForeign = Err EValue.
Proof. reflexivity. Qed.

(* a name resolves to the block of exactly that name, which exists afterwards; the circuit is
   unchanged or extended by exactly one block of that (so far unused) name *)
Theorem validate_name bs s x bs' :
  validate_blk bs (RName s) = Ok (x, bs') ->
  x = RBlk s /\ has_name bs' s = true /\
  (bs' = bs \/ exists b, bs' = bs ++ [b] /\ bd_name b = s /\ has_name bs s = false).
Proof.
  unfold validate_blk.
  destruct (starts_with_underscore s && negb (has_name bs s)) eqn:E.
  - apply andb_true_iff in E as [_ E]. apply negb_true_iff in E.
    destruct (String.eqb s "_ctrl") eqn:Ec.
    + intros H; inversion H; subst. split; [reflexivity|]. split.
      * rewrite has_name_app. simpl. now rewrite String.eqb_refl, orb_true_r.
      * right. eexists. repeat split. exact E.
    + destruct (String.prefix not_prefix s && negb (sixth_is_underscore s)); [|discriminate].
      intros H; inversion H; subst. split; [reflexivity|]. split.
      * rewrite has_name_app. simpl. now rewrite String.eqb_refl, orb_true_r.
      * right. eexists. repeat split. exact E.
  - destruct (has_name bs s) eqn:Hn; [|discriminate].
    intros H; inversion H; subst. auto.
Qed.

Theorem unknown_name_error bs s :
  has_name bs s = false -> starts_with_underscore s = false -> validate_blk bs (RName s) = Err EKey.
Proof. intros H1 H2. unfold validate_blk. now rewrite H2, H1. Qed.

(* the inverter behind a '_not_NAME' shortcut: a Not whose only input is NAME *)
Theorem inverter_created bs s :
  has_name bs s = false -> String.prefix not_prefix s = true -> sixth_is_underscore s = false ->
  s <> "_ctrl" ->
  validate_blk bs (RName s) =
  Ok (RBlk s, bs ++ [{| bd_name := s; bd_kind := KNot; bd_inputs := [("_", inr [RName (strip_not s)])] |}]).
Proof.
  intros Hn Hp H6 Hc. unfold validate_blk.
  assert (Hu : starts_with_underscore s = true).
  { destruct s as [|c s]; [discriminate|].
    change (String.prefix not_prefix (String c s))
      with (if Ascii.ascii_dec "_"%char c then String.prefix "not_" s else false) in Hp.
    destruct (Ascii.ascii_dec "_"%char c) as [<-|]; [reflexivity|discriminate]. }
  rewrite Hu, Hn, Hp, H6. simpl.
  destruct (String.eqb s "_ctrl") eqn:E; [apply String.eqb_eq in E; congruence|reflexivity].
Qed.

(* ... exists exactly once: names stay unique through the whole finalisation *)
Definition names (bs : list blockdef) : list string := map bd_name bs.

Lemma has_name_In bs n : has_name bs n = true <-> In n (names bs).
Proof.
  unfold has_name, names. rewrite existsb_exists, in_map_iff. split.
  - intros (b & Hb & E). apply String.eqb_eq in E. eauto.
  - intros (b & E & Hb). exists b. split; [exact Hb|]. subst. apply String.eqb_refl.
Qed.

Lemma validate_blk_nodup bs r x bs' :
  NoDup (names bs) -> validate_blk bs r = Ok (x, bs') -> NoDup (names bs').
Proof.
  intros ND H. destruct r; try (inversion H; subst; exact ND); try discriminate.
  destruct (validate_name _ _ _ _ H) as (_ & _ & [->|(b & -> & Hb & Hn)]); [exact ND|].
  unfold names. rewrite map_app. simpl.
  eapply Permutation_NoDup; [apply Permutation_cons_append|].
  constructor; [|exact ND]. intros Hin. apply has_name_In in Hin. subst. congruence.
Qed.

Lemma validate_list_nodup l : forall bs xs bs',
  NoDup (names bs) -> validate_list bs l = Ok (xs, bs') -> NoDup (names bs').
Proof.
  induction l as [|r rest IH]; intros bs xs bs' ND; simpl.
  - intros H; inversion H; subst; exact ND.
  - destruct (validate_blk bs r) as [[x bs1]|e] eqn:E1; [|discriminate].
    destruct (validate_list bs1 rest) as [[ys bs2]|e] eqn:E2; [|discriminate].
    intros H; inversion H; subst. eapply IH; [|exact E2]. eapply validate_blk_nodup; eassumption.
Qed.

Lemma validate_inputs_nodup ins : forall bs ri bs',
  NoDup (names bs) -> validate_inputs bs ins = Ok (ri, bs') -> NoDup (names bs').
Proof.
  induction ins as [|[iname [r|g]] rest IH]; intros bs ri bs' ND; simpl.
  - intros H; inversion H; subst; exact ND.
  - destruct (validate_blk bs r) as [[x bs1]|e] eqn:E1; [|discriminate].
    destruct (validate_inputs bs1 rest) as [[ys bs2]|e] eqn:E2; [|discriminate].
    intros H; inversion H; subst. eapply IH; [|exact E2]. eapply validate_blk_nodup; eassumption.
  - destruct (validate_list bs g) as [[x bs1]|e] eqn:E1; [|discriminate].
    destruct (validate_inputs bs1 rest) as [[ys bs2]|e] eqn:E2; [|discriminate].
    intros H; inversion H; subst. eapply IH; [|exact E2]. eapply validate_list_nodup; eassumption.
Qed.

Lemma pass_nodup todo : forall bs m bs' m',
  NoDup (names bs) -> pass todo bs m = Ok (bs', m') -> NoDup (names bs').
Proof.
  induction todo as [|n rest IH]; intros bs m bs' m' ND; simpl.
  - intros H; inversion H; subst; exact ND.
  - destruct (validate_inputs bs _) as [[ri bs1]|e] eqn:E1; [|discriminate].
    intros H. eapply IH; [|exact H]. eapply validate_inputs_nodup; eassumption.
Qed.

(* block names are unique after finalisation: in particular exactly one inverter per shortcut,
   shared by all references to it *)
Theorem finalize_names_unique bs bs' m :
  NoDup (names bs) -> finalize bs = Ok (bs', m) -> NoDup (names bs').
Proof.
  intros ND. unfold finalize.
  destruct (pass (names_of_kind is_c bs) bs []) as [[bs1 m1]|e] eqn:E1; [|discriminate].
  intros H. eapply pass_nodup; [|exact H]. eapply pass_nodup; eassumption.
Qed.

(* ---------- the connection biconditional ---------- *)
Theorem conn_biconditional bs m a b :
  In b (names bs) ->
  (In b (oconn bs m a) <-> feeds m a b = true) /\ (In a (iconn m b) <-> feeds m a b = true).
Proof.
  intros Hb. unfold oconn, iconn, feeds. split.
  - rewrite filter_In. unfold feeds. fold (names bs). tauto.
  - destruct (rm_get m b) as [ri|]; [|split; [intros []|discriminate]].
    rewrite existsb_exists. split.
    + intros H. exists a. split; [exact H|apply String.eqb_refl].
    + intros (x & Hx & E). apply String.eqb_eq in E. now subst.
Qed.

(* ---------- event destinations and filter control blocks given by name ---------- *)
Theorem named_resolved bs n w x bs' :
  resolve_named bs n w = Ok (x, bs') ->
  x = n /\ exists b, find (fun b => String.eqb (bd_name b) n) bs' = Some b /\
                     (w = NeedS -> bd_kind b = KS).
Proof.
  unfold resolve_named. destruct (validate_blk bs (RName n)) as [[r bs1]|e] eqn:E; [|discriminate].
  destruct (validate_name _ _ _ _ E) as (-> & _ & _).
  destruct (find (fun b => String.eqb (bd_name b) n) bs1) as [b|] eqn:F.
  - destruct w.
    + destruct (bd_kind b) eqn:K; try discriminate. intros H; inversion H; subst.
      split; [reflexivity|]. exists b. auto.
    + intros H; inversion H; subst. split; [reflexivity|]. exists b. split; [exact F|discriminate].
  - destruct w; discriminate.
Qed.

Theorem named_wrong_kind bs n bs1 b :
  validate_blk bs (RName n) = Ok (RBlk n, bs1) ->
  find (fun b => String.eqb (bd_name b) n) bs1 = Some b -> bd_kind b <> KS ->
  resolve_named bs n NeedS = Err EType.
Proof.
  intros E F K. unfold resolve_named. rewrite E, F. destruct (bd_kind b); congruence.
Qed.
