From Verif Require Import Values Fsm Timers.
Open Scope string_scope.
Open Scope list_scope.
Open Scope Z_scope.

(* ---------- effective duration ---------- *)
Theorem eff_duration_precedence d x ev_dur :
  (ev_dur <> DNoneV -> eff_duration d x ev_dur = ev_dur) /\
  (ev_dur = DNoneV -> forall i, assoc x (t_inst_dur d) = Some i -> i <> DNoneV ->
     eff_duration d x ev_dur = i) /\
  (ev_dur = DNoneV -> (assoc x (t_inst_dur d) = None \/ assoc x (t_inst_dur d) = Some DNoneV) ->
     eff_duration d x ev_dur = match assoc x (t_class_dur d) with Some c => c | None => DNoneV end).
Proof.
  unfold eff_duration. repeat split.
  - intros H. destruct ev_dur; congruence.
  - intros -> i Hi Hn. rewrite Hi. destruct i; congruence.
  - intros -> [H|H]; rewrite H; reflexivity.
Qed.

(* ---------- at most one live handle, and it is the one the FSM refers to ---------- *)
Definition J (s : tstate) : Prop :=
  match live_handles s with
  | [] => True
  | [h] => ts_active s = Some (h_id h) /\ ts_now s <= h_when h
  | _ => False
  end.
Definition NoLive (s : tstate) : Prop := live_handles s = [].

Lemma live_kill id hs :
  filter h_live (kill id hs) = filter (fun h => negb (Nat.eqb (h_id h) id)) (filter h_live hs).
Proof.
  induction hs as [|h r IH]; simpl; [reflexivity|].
  destruct (Nat.eqb (h_id h) id) eqn:E; simpl.
  - rewrite IH. destruct (h_live h); simpl; [now rewrite E|reflexivity].
  - rewrite IH. destruct (h_live h); simpl; [now rewrite E|reflexivity].
Qed.

Lemma stop_timer_nolive s : J s -> NoLive (stop_timer s) /\ ts_active (stop_timer s) = None /\
                                   ts_now (stop_timer s) = ts_now s /\ ts_state (stop_timer s) = ts_state s.
Proof.
  unfold J, NoLive, stop_timer, live_handles. intros H.
  destruct (ts_active s) as [id|] eqn:Ea; simpl.
  - rewrite live_kill. destruct (filter h_live (ts_handles s)) as [|h [|h2 r]]; simpl in *.
    + auto.
    + destruct H as [H _]. inversion H; subst. rewrite Nat.eqb_refl. simpl. auto.
    + destruct H.
  - rewrite Ea. destruct (filter h_live (ts_handles s)) as [|h [|h2 r]]; simpl in *; auto.
    + destruct H as [H _]. discriminate.
    + destruct H.
Qed.

Lemma enter_chain_J n : forall d s x dur s1 r,
  NoLive s -> enter_chain n d s x dur = (s1, r) -> J s1 /\ ts_now s1 = ts_now s.
Proof.
  induction n as [|k IH]; intros d s x dur s1 r HN; simpl.
  - intros H; inversion H; subst. unfold J. rewrite HN. auto.
  - assert (HN1 : NoLive (enter_state s x)) by exact HN.
    destruct (assoc x (t_enter_goto d)) as [nx|].
    { destruct (str_mem nx (fd_states (t_fsm d))).
      - intros H. destruct (IH _ _ _ _ _ _ HN1 H) as [A B]. split; [exact A|exact B].
      - intros H; inversion H; subst. unfold J. rewrite HN1. auto. }
    destruct (assoc x (fd_timed (t_fsm d))) as [tev|].
    2:{ intros H; inversion H; subst. unfold J. rewrite HN1. auto. }
    destruct (eff_duration d x dur) as [| |us].
    + intros H; inversion H; subst. unfold J. rewrite HN1. auto.
    + intros H; inversion H; subst. unfold J. rewrite HN1. auto.
    + destruct (us <=? 0) eqn:Eu.
      * destruct (target d (enter_state s x) tev) as [[nxt|]|e].
        -- intros H. destruct (IH _ _ _ _ _ _ HN1 H) as [A B]. split; [exact A|exact B].
        -- intros H; inversion H; subst. unfold J. rewrite HN1. auto.
        -- intros H; inversion H; subst. unfold J. rewrite HN1. auto.
      * intros H; inversion H; subst. split; [|reflexivity].
        unfold J, live_handles, set_timer. simpl. rewrite filter_app.
        unfold NoLive, live_handles in HN1. simpl in HN1. rewrite HN1. simpl.
        split; [reflexivity|]. apply Z.leb_gt in Eu. lia.
Qed.

Lemma J_fail s : J s -> J (fail s).
Proof. exact (fun H => H). Qed.
Lemma J_log_entry s : J s -> J (log_entry s).
Proof. unfold log_entry. destruct (ts_state s); exact (fun H => H). Qed.

Lemma do_event_J d s e dur s1 r : J s -> do_event d s e dur = (s1, r) -> J s1 /\ ts_now s1 = ts_now s.
Proof.
  intros HJ. unfold do_event.
  destruct (target d s e) as [[nxt|]|[]]; try (intros H; inversion H; subst; auto; fail).
  destruct (leaving_fails d s); [intros H; inversion H; subst; auto|].
  destruct (stop_timer_nolive s HJ) as (HN & _ & Hnow & _).
  destruct (enter_chain (chain_limit (t_fsm d)) d (stop_timer s) nxt dur) as [s2 [k|]] eqn:E;
    destruct (enter_chain_J _ _ _ _ _ _ _ HN E) as [A B]; intros H; inversion H; subst.
  - split; [exact A|]. simpl. congruence.
  - split; [now apply J_log_entry|]. unfold log_entry. destruct (ts_state s2); simpl; congruence.
Qed.

Lemma J_advance s t : J s -> none_overdue s t = true -> J (advance s t).
Proof.
  unfold J, live_handles, advance. simpl. intros H Ho.
  destruct (filter h_live (ts_handles s)) as [|h [|h2 r]] eqn:E; auto.
  destruct H as [H _]. split; [exact H|].
  unfold none_overdue in Ho. rewrite forallb_forall in Ho.
  assert (Hin : In h (ts_handles s) /\ h_live h = true).
  { apply filter_In. rewrite E. now left. }
  destruct Hin as [Hin Hl]. specialize (Ho h Hin). rewrite Hl in Ho. simpl in Ho.
  now apply Z.leb_le.
Qed.

Lemma J_kill s id : J s -> J (set_handles s (kill id (ts_handles s))).
Proof.
  unfold J, live_handles, set_handles. simpl. rewrite live_kill. intros H.
  destruct (filter h_live (ts_handles s)) as [|h [|h2 r]]; simpl in *; auto.
  - destruct (Nat.eqb (h_id h) id); simpl; auto.
  - destruct H.
Qed.

Lemma step_J d s x s1 : J s -> tstep_do d s x = Some s1 -> J s1.
Proof.
  intros HJ. destruct x as [t e dur r|t id|t]; unfold tstep_do.
  - destruct ((ts_now s <=? t) && none_overdue s t) eqn:E; [|discriminate].
    apply andb_true_iff in E as [_ Ho].
    destruct (do_event d (advance s t) e dur) as [s2 r1] eqn:Ed.
    destruct (resb_eq r r1); [|discriminate]. intros H; inversion H; subst.
    exact (proj1 (do_event_J _ _ _ _ _ _ (J_advance _ _ HJ Ho) Ed)).
  - destruct ((ts_now s <=? t) && none_overdue s t) eqn:E; [|discriminate].
    apply andb_true_iff in E as [_ Ho].
    destruct (find_handle id (ts_handles s)) as [h|]; [|discriminate].
    destruct (h_live h && (h_when h =? t)); [|discriminate].
    cbv zeta. remember (set_handles (advance s t) (kill id (ts_handles s))) as s0 eqn:Es0.
    assert (J0 : J s0) by (subst s0; apply (J_kill (advance s t) id), J_advance; assumption).
    clear Es0. destruct (ts_state s0) as [cur|]; [|discriminate].
    destruct (assoc cur (fd_timed (t_fsm d))) as [tev|]; [|discriminate].
    intros H; inversion H; subst.
    destruct (do_event d s0 tev DNoneV) as [s2 r2] eqn:Ed. simpl.
    exact (proj1 (do_event_J _ _ _ _ _ _ J0 Ed)).
  - destruct ((ts_now s <=? t) && none_overdue s t) eqn:E; [|discriminate].
    apply andb_true_iff in E as [_ Ho]. intros H; inversion H; subst.
    destruct (stop_timer_nolive _ (J_advance _ _ HJ Ho)) as (HN & _).
    unfold J. rewrite HN. exact I.
Qed.

Lemma J0 : J tstate0.
Proof. exact I. Qed.

Lemma run_J d xs : forall s s1, J s -> trun d s xs = Some s1 -> J s1.
Proof.
  induction xs as [|x r IH]; intros s s1 HJ; simpl.
  - intros H; inversion H; subst; exact HJ.
  - destruct (tstep_do d s x) as [s2|] eqn:E; [|discriminate].
    apply IH. eapply step_J; eassumption.
Qed.

(* at most one timer is pending per FSM, in every reachable state *)
Theorem at_most_one_pending d xs s :
  trun d tstate0 xs = Some s -> (List.length (live_handles s) <= 1)%nat.
Proof.
  intros H. pose proof (run_J d xs _ _ J0 H) as HJ. unfold J in HJ.
  destruct (live_handles s) as [|h [|h2 r]]; simpl; [lia|lia|destruct HJ].
Qed.

(* the pending timer is the one the FSM refers to and it does not lie in the past *)
Theorem pending_is_active d xs s h :
  trun d tstate0 xs = Some s -> In h (live_handles s) ->
  ts_active s = Some (h_id h) /\ ts_now s <= h_when h /\ expiry_of s = Some (h_when h).
Proof.
  intros H Hin. pose proof (run_J d xs _ _ J0 H) as HJ. unfold J in HJ.
  destruct (live_handles s) as [|h1 [|h2 r]] eqn:E; [destruct Hin| |destruct HJ].
  destruct Hin as [<-|[]]. destruct HJ as [Ha Hw]. repeat split; try assumption.
  unfold expiry_of. rewrite Ha.
  assert (Hf : In h1 (ts_handles s) /\ h_live h1 = true).
  { apply filter_In. unfold live_handles in E. rewrite E. now left. }
  destruct Hf as [Hin Hl].
  destruct (find (fun h => Nat.eqb (h_id h) (h_id h1) && h_live h) (ts_handles s)) as [h'|] eqn:F.
  - apply find_some in F as [Hin' Heq]. apply andb_true_iff in Heq as [_ Hl'].
    assert (Hx : In h' (live_handles s)) by (apply filter_In; auto).
    rewrite E in Hx. destruct Hx as [<-|[]]. reflexivity.
  - exfalso. eapply find_none in F; [|exact Hin]. simpl in F. now rewrite Nat.eqb_refl, Hl in F.
Qed.

(* nothing is pending once the simulation has stopped: no timed event can fire afterwards *)
Theorem no_pending_after_stop d xs s t s' :
  trun d tstate0 xs = Some s -> tstep_do d s (TStop t) = Some s' -> live_handles s' = [].
Proof.
  intros H. pose proof (run_J d xs _ _ J0 H) as HJ. unfold tstep_do.
  destruct ((ts_now s <=? t) && none_overdue s t) eqn:E; [|discriminate].
  apply andb_true_iff in E as [_ Ho]. intros H1; inversion H1; subst.
  exact (proj1 (stop_timer_nolive _ (J_advance _ _ HJ Ho))).
Qed.

Theorem no_fire_after_stop d xs s t s' t2 id :
  trun d tstate0 xs = Some s -> tstep_do d s (TStop t) = Some s' ->
  tstep_do d s' (TFire t2 id) = None.
Proof.
  intros H Hs. pose proof (no_pending_after_stop _ _ _ _ _ H Hs) as HN.
  unfold tstep_do. destruct ((ts_now s' <=? t2) && none_overdue s' t2); [|reflexivity].
  destruct (find_handle id (ts_handles s')) as [h|] eqn:F; [|reflexivity].
  destruct (h_live h) eqn:Hl; [|reflexivity].
  apply find_some in F as [Hin _].
  assert (Hx : In h (live_handles s')) by (apply filter_In; auto).
  rewrite HN in Hx. destruct Hx.
Qed.

(* a handle that fires belongs to the current occupancy of the state: it is the one the FSM
   refers to (so a stale timed event - one whose state was left or re-entered - never fires),
   and it fires exactly at its time *)
Theorem fired_is_current d xs s t id s' :
  trun d tstate0 xs = Some s -> tstep_do d s (TFire t id) = Some s' ->
  ts_active s = Some id /\ exists h, In h (live_handles s) /\ h_id h = id /\ h_when h = t.
Proof.
  intros H. pose proof (run_J d xs _ _ J0 H) as HJ. unfold tstep_do.
  destruct ((ts_now s <=? t) && none_overdue s t); [|discriminate].
  destruct (find_handle id (ts_handles s)) as [h|] eqn:F; [|discriminate].
  destruct (h_live h) eqn:Hl; [|discriminate]. destruct (h_when h =? t) eqn:Hw; [|discriminate].
  intros _. apply find_some in F as [Hin Hid]. apply Nat.eqb_eq in Hid. apply Z.eqb_eq in Hw.
  assert (Hx : In h (live_handles s)) by (apply filter_In; auto).
  unfold J in HJ. destruct (live_handles s) as [|h1 [|h2 r]] eqn:E; [destruct Hx| |destruct HJ].
  destruct Hx as [Hx|[]]. subst h1. destruct HJ as [Ha _]. split; [congruence|].
  exists h. repeat split; auto. now left.
Qed.

(* after a REJECTED timed event the FSM is in the state without any timer *)
Theorem rejected_timed_event d xs s t id cur tev :
  trun d tstate0 xs = Some s -> ts_state s = Some cur ->
  assoc cur (fd_timed (t_fsm d)) = Some tev ->
  (exists s0, tstep_do d s (TFire t id) = Some s0) ->
  target d (set_handles (advance s t) (kill id (ts_handles s))) tev = Ok None ->
  exists s', tstep_do d s (TFire t id) = Some s' /\
             ts_state s' = Some cur /\ live_handles s' = [] /\ expiry_of s' = None.
Proof.
  intros H Hs Ht [s0 Hf] Hrej.
  destruct (fired_is_current _ _ _ _ _ _ H Hf) as (Ha & h & Hin & Hid & Hw).
  pose proof (run_J d xs _ _ J0 H) as HJ.
  unfold tstep_do in *.
  destruct ((ts_now s <=? t) && none_overdue s t) eqn:E; [|discriminate].
  destruct (find_handle id (ts_handles s)) as [h'|]; [|discriminate].
  destruct (h_live h' && (h_when h' =? t)); [|discriminate].
  cbv zeta in *. cbn [ts_state set_handles advance] in *. rewrite Hs in *. rewrite Ht in *.
  unfold do_event. rewrite Hrej. eexists. split; [reflexivity|]. cbn [fst].
  split; [exact Hs|].
  assert (L : live_handles (set_handles (advance s t) (kill id (ts_handles s))) = []).
  { unfold live_handles, set_handles. simpl. rewrite live_kill.
    unfold J in HJ. unfold live_handles in *.
    destruct (filter h_live (ts_handles s)) as [|h1 [|h2 r]]; [reflexivity| |destruct HJ].
    destruct Hin as [<-|[]]. simpl. rewrite Hid, Nat.eqb_refl. reflexivity. }
  split; [exact L|].
  unfold expiry_of. cbn [ts_active set_handles advance ts_handles]. rewrite Ha.
  destruct (find (fun h0 => Nat.eqb (h_id h0) id && h_live h0) (kill id (ts_handles s))) as [hx|] eqn:F;
    [|reflexivity].
  apply find_some in F as [Hinx Hx]. apply andb_true_iff in Hx as [_ Hlx].
  assert (In hx (live_handles (set_handles (advance s t) (kill id (ts_handles s)))))
    by (apply filter_In; auto).
  rewrite L in H0. destruct H0.
Qed.

(* ---------- link: agreement with the model implies the monitor ---------- *)
Definition step_time (x : tstep) : Z :=
  match x with TExt t _ _ _ | TFire t _ | TStop t => t end.

Lemma step_now d s x s1 : J s -> tstep_do d s x = Some s1 -> ts_now s1 = step_time x.
Proof.
  intros HJ. destruct x as [t e dur rr|t id|t]; unfold tstep_do.
  - destruct ((ts_now s <=? t) && none_overdue s t) eqn:E; [|discriminate].
    apply andb_true_iff in E as [_ Ho].
    destruct (do_event d (advance s t) e dur) as [s2 r1] eqn:Ed.
    destruct (resb_eq rr r1); [|discriminate]. intros H; inversion H; subst.
    exact (proj2 (do_event_J _ _ _ _ _ _ (J_advance _ _ HJ Ho) Ed)).
  - destruct ((ts_now s <=? t) && none_overdue s t) eqn:E; [|discriminate].
    apply andb_true_iff in E as [_ Ho].
    destruct (find_handle id (ts_handles s)) as [h|]; [|discriminate].
    destruct (h_live h && (h_when h =? t)); [|discriminate].
    cbv zeta. remember (set_handles (advance s t) (kill id (ts_handles s))) as s0 eqn:Es0.
    assert (J0' : J s0) by (subst s0; apply (J_kill (advance s t) id), J_advance; assumption).
    assert (N0 : ts_now s0 = t) by (subst s0; reflexivity).
    clear Es0. destruct (ts_state s0) as [cur|]; [|discriminate].
    destruct (assoc cur (fd_timed (t_fsm d))) as [tev|]; [|discriminate].
    intros H; inversion H; subst.
    destruct (do_event d s0 tev DNoneV) as [s2 r2] eqn:Ed. simpl.
    now rewrite (proj2 (do_event_J _ _ _ _ _ _ J0' Ed)).
  - destruct ((ts_now s <=? t) && none_overdue s t) eqn:E; [|discriminate].
    apply andb_true_iff in E as [_ Ho]. intros H; inversion H; subst.
    now rewrite (proj1 (proj2 (proj2 (stop_timer_nolive _ (J_advance _ _ HJ Ho))))).
Qed.

Lemma run_now d xs : forall s s1, J s -> trun d s xs = Some s1 -> ts_now s1 = last_time xs (ts_now s).
Proof.
  induction xs as [|x r IH]; intros s s1 HJ; simpl; [intros H; inversion H; reflexivity|].
  destruct (tstep_do d s x) as [s2|] eqn:E; [|discriminate]. intros H.
  rewrite (IH _ _ (step_J _ _ _ _ HJ E) H), (step_now _ _ _ _ HJ E).
  destruct x; reflexivity.
Qed.

Lemma run_split d xs : forall s s1, trun d s (xs) = Some s1 -> ends_with_stop xs = true ->
  J s -> live_handles s1 = [].
Proof.
  induction xs as [|x r IH]; intros s s1 H He HJ; [discriminate|].
  simpl in H. destruct (tstep_do d s x) as [s2|] eqn:E; [|discriminate].
  destruct r as [|y r'].
  - simpl in H. inversion H; subst. destruct x; try discriminate.
    unfold tstep_do in E. destruct ((ts_now s <=? t) && none_overdue s t) eqn:E2; [|discriminate].
    apply andb_true_iff in E2 as [_ Ho]. inversion E; subst.
    exact (proj1 (stop_timer_nolive _ (J_advance _ _ HJ Ho))).
  - apply (IH s2 s1 H); [|eapply step_J; eassumption].
    simpl in He. destruct x; exact He.
Qed.

Theorem timers_agree_implies_monitor k : tcase_agree k = true -> tcase_monitor k = true.
Proof.
  unfold tcase_agree, tcase_monitor.
  destruct (trun (tc_def k) tstate0 (tc_steps k)) as [s|] eqn:R; [|discriminate].
  pose proof (run_J _ _ _ _ J0 R) as HJ.
  pose proof (at_most_one_pending _ _ _ R) as H1.
  pose proof (run_now _ _ _ _ J0 R) as Hnow. simpl in Hnow.
  intros H. repeat (apply andb_true_iff in H; destruct H as [H ?]).
  match goal with Hx : Nat.eqb (List.length (live_handles s)) _ = true |- _ =>
    apply Nat.eqb_eq in Hx; rewrite <- Hx end.
  apply andb_true_iff. split; [apply andb_true_iff; split|].
  - apply Nat.leb_le. exact H1.
  - match goal with Hx : oz_eqb (expiry_of s) _ = true |- _ => rename Hx into Hex end.
    destruct (to_expiry (tc_obs k)) as [w|]; [|reflexivity].
    destruct (expiry_of s) as [w'|] eqn:Ex; [|discriminate]. simpl in Hex. apply Z.eqb_eq in Hex. subst w'.
    unfold expiry_of in Ex. destruct (ts_active s) as [id|]; [|discriminate].
    destruct (find (fun h => Nat.eqb (h_id h) id && h_live h) (ts_handles s)) as [h|] eqn:F; [|discriminate].
    inversion Ex; subst. apply find_some in F as [Hin Hc]. apply andb_true_iff in Hc as [_ Hl].
    assert (Hx : In h (live_handles s)) by (apply filter_In; auto).
    destruct (pending_is_active _ _ _ _ R Hx) as (_ & Hw & _).
    apply andb_true_iff. split; [apply Z.leb_le; rewrite <- Hnow; exact Hw|].
    apply Nat.eqb_eq. destruct (live_handles s) as [|a [|b r]]; simpl in *; [destruct Hx|reflexivity|lia].
  - destruct (ends_with_stop (tc_steps k)) eqn:Es; [|reflexivity].
    rewrite (run_split _ _ _ _ R Es J0). reflexivity.
Qed.

(* a failing exit (leaving_fails) abandons the transition before the timer is stopped *)
Lemma failed_exit_keeps_timer d s e dur nxt :
  target d s e = Ok (Some nxt) -> leaving_fails d s = true ->
  do_event d s e dur = (s, Err EUnknownEvent).
Proof. intros Ht Hl. unfold do_event. now rewrite Ht, Hl. Qed.
