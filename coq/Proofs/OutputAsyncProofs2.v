(* Further theorems about the OutputAsync acceptor: arrival order in 'wait' mode, the most recent
   event in 'cancel' mode, output = number of runs, guard-time separation. *)
From Verif Require Import Values OutputAsync OutputAsyncProofs.
Open Scope list_scope.
Open Scope Z_scope.

Fixpoint starts_of (xs : list ostep) : list nat :=
  match xs with [] => [] | OStart _ i :: r => i :: starts_of r | _ :: r => starts_of r end.

Lemma orun_app c xs ys : forall s s',
  orun c s (xs ++ ys) = Some s' ->
  exists s1, orun c s xs = Some s1 /\ orun c s1 ys = Some s'.
Proof.
  induction xs as [|x r IH]; intros s s'; simpl.
  - intros H. exists s. auto.
  - destruct (ostep_do c s x) as [s1|]; [|discriminate]. apply IH.
Qed.

(* inversion of an accepted step, once and for all *)
Inductive step_shape (c : ocfg) (s : ostate) : ostep -> ostate -> Prop :=
| ShPut t id : onow s <= t -> owed s = None -> ~ In id (seen s) ->
    step_shape c s (OPut t id)
      (upd s (q s ++ [id]) (active s) (reported s) (id :: seen s) None (starting s) t (ostopped s) (oout s))
| ShUp t n : onow s <= t -> owed s = None -> n = S (oout s) -> starting s = false ->
    oout s = List.length (active s) ->
    step_shape c s (OOut t n)
      (upd s (q s) (active s) (reported s) (seen s) None true t (ostopped s) n)
| ShDown t n act' : onow s <= t -> owed s = None -> S n = oout s -> drop_due t (active s) = Some act' ->
    n = (List.length act' + (if starting s then 1 else 0))%nat ->
    step_shape c s (OOut t n)
      (upd s (q s) act' (reported s) (seen s) None (starting s) t (ostopped s) n)
| ShStartSeq t id rest : onow s <= t -> owed s = None -> starting s = true -> o_mode c <> MStart ->
    q s = id :: rest -> active s = [] ->
    step_shape c s (OStart t id)
      (upd s rest [{| a_id := id; a_phase := PhCoro |}] (reported s) (seen s) None false t
           (ostopped s) (oout s))
| ShStartPar t id : onow s <= t -> owed s = None -> starting s = true -> o_mode c = MStart ->
    In id (q s) ->
    step_shape c s (OStart t id)
      (upd s (remn id (q s)) (active s ++ [{| a_id := id; a_phase := PhCoro |}]) (reported s) (seen s)
           None false t (ostopped s) (oout s))
| ShEnd t id r : onow s <= t -> owed s = None -> in_coro id s = true ->
    (r = OCancelled -> In id (o_selfcancel c) \/ (o_mode c = MCancel /\ q s <> [])) ->
    step_shape c s (OEnd t id r)
      (upd s (q s)
           (map (fun a => if Nat.eqb (a_id a) id
                          then {| a_id := id; a_phase := PhGuard (t + o_guard c) |} else a) (active s))
           (reported s) (seen s) (Some (id, r)) (starting s) t (ostopped s) (oout s))
| ShResOwed t id r : onow s <= t -> owed s = Some (id, r) ->
    step_shape c s (OResult t id r)
      (upd s (q s) (active s) (id :: reported s) (seen s) None (starting s) t (ostopped s) (oout s))
| ShResDiscard t id h2 rest : onow s <= t -> owed s = None -> o_mode c = MCancel ->
    q s = id :: h2 :: rest -> active s = [] ->
    step_shape c s (OResult t id OCancelled)
      (upd s (h2 :: rest) [] (id :: reported s) (seen s) None (starting s) t (ostopped s) (oout s))
| ShStop t : onow s <= t ->
    step_shape c s (OStop t)
      (upd s (q s) (active s) (reported s) (seen s) (owed s) (starting s) t true (oout s)).

Lemma no_owed_none s : no_owed s = true -> owed s = None.
Proof. unfold no_owed. destruct (owed s); [discriminate|reflexivity]. Qed.

Lemma step_inv c s x s' : ostep_do c s x = Some s' -> step_shape c s x s'.
Proof.
  destruct x as [t id|t id|t id r|t id r|t n|t]; unfold ostep_do; intros H.
  - destruct ((onow s <=? t) && negb (memn id (seen s)) && no_owed s) eqn:G; [|discriminate].
    apply andb_true_iff in G as [G G3]. apply andb_true_iff in G as [G1 G2].
    apply Z.leb_le in G1. apply negb_true_iff in G2. apply memn_false_notin in G2.
    apply no_owed_none in G3. inversion H; subst. now constructor.
  - destruct ((onow s <=? t) && no_owed s && starting s) eqn:G; [|discriminate].
    apply andb_true_iff in G as [G G3]. apply andb_true_iff in G as [G1 G2].
    apply Z.leb_le in G1. apply no_owed_none in G2.
    destruct (o_mode c) eqn:Em.
    + destruct (q s) as [|h rest] eqn:Eq; [discriminate|]. destruct (active s) eqn:Ea; [|discriminate].
      destruct (Nat.eqb h id) eqn:Eh; [|discriminate]. apply Nat.eqb_eq in Eh. subst h.
      inversion H; subst. eapply ShStartSeq; eauto. congruence.
    + destruct (q s) as [|h rest] eqn:Eq; [discriminate|]. destruct (active s) eqn:Ea; [|discriminate].
      destruct (Nat.eqb h id) eqn:Eh; [|discriminate]. apply Nat.eqb_eq in Eh. subst h.
      inversion H; subst. eapply ShStartSeq; eauto. congruence.
    + destruct (memn id (q s)) eqn:Em2; [|discriminate]. apply memn_true_in in Em2.
      inversion H; subst. now eapply ShStartPar.
  - destruct ((onow s <=? t) && in_coro id s && no_owed s) eqn:G; [|discriminate].
    apply andb_true_iff in G as [G G3]. apply andb_true_iff in G as [G1 G2].
    apply Z.leb_le in G1. apply no_owed_none in G3.
    destruct (match r with OCancelled => _ | _ => true end) eqn:Ec; [|discriminate].
    inversion H; subst. constructor; auto.
    intros ->. destruct (memn id (o_selfcancel c)) eqn:Esc; [left; now apply memn_true_in|].
    cbn [orb] in Ec. right. destruct (o_mode c); try discriminate. destruct (q s); [discriminate|].
    split; [reflexivity|discriminate].
  - destruct ((onow s <=? t) && negb (memn id (reported s))) eqn:G; [|discriminate].
    apply andb_true_iff in G as [G1 _]. apply Z.leb_le in G1.
    destruct (owed s) as [[i r0]|] eqn:Eo.
    + destruct (Nat.eqb i id && outc_eqb r r0) eqn:G; [|discriminate].
      apply andb_true_iff in G as [Ga Gb]. apply Nat.eqb_eq in Ga. subst i.
      assert (r = r0) by (destruct r, r0; simpl in Gb; congruence). subst r0.
      inversion H; subst. now constructor.
    + destruct (o_mode c) eqn:Em; try discriminate. destruct r; try discriminate.
      destruct (q s) as [|h [|h2 rest]] eqn:Eq; try discriminate.
      destruct (Nat.eqb h id && match active s with [] => true | _ => false end) eqn:G; [|discriminate].
      apply andb_true_iff in G as [Ga Gb]. apply Nat.eqb_eq in Ga. subst h.
      destruct (active s) eqn:Ea; [|discriminate].
      inversion H; subst. eapply ShResDiscard; eauto.
  - destruct ((onow s <=? t) && no_owed s) eqn:G; [|discriminate].
    apply andb_true_iff in G as [G1 G2]. apply Z.leb_le in G1. apply no_owed_none in G2.
    destruct (Nat.eqb n (S (oout s))) eqn:E1.
    + destruct (negb (starting s) && Nat.eqb (oout s) (List.length (active s))) eqn:G; [|discriminate].
      apply andb_true_iff in G as [Ga Gb]. apply negb_true_iff in Ga. apply Nat.eqb_eq in Gb, E1.
      inversion H; subst. now constructor.
    + destruct (Nat.eqb (S n) (oout s)) eqn:E2; [|discriminate].
      destruct (drop_due t (active s)) as [act'|] eqn:Ed; [|discriminate].
      destruct (Nat.eqb n (List.length act' + (if starting s then 1 else 0))) eqn:E3; [|discriminate]. apply Nat.eqb_eq in E2, E3.
      inversion H; subst. now eapply ShDown.
  - destruct (onow s <=? t) eqn:G; [|discriminate]. apply Z.leb_le in G.
    inversion H; subst. now constructor.
Qed.

(* time never goes back *)
Lemma step_time c s x s' : ostep_do c s x = Some s' -> onow s <= onow s'.
Proof. intros H. apply step_inv in H. destruct H; simpl; assumption. Qed.
Lemma run_time c xs : forall s s', orun c s xs = Some s' -> onow s <= onow s'.
Proof.
  induction xs as [|x r IH]; intros s s'; simpl.
  - intros H; inversion H; lia.
  - destruct (ostep_do c s x) as [s1|] eqn:E; [|discriminate]. intros H.
    apply step_time in E. apply IH in H. lia.
Qed.

(* ---------- 'wait' mode: the coroutine runs for every event, in arrival order ---------- *)
Lemma wait_step_order c s x s' :
  o_mode c = MWait -> ostep_do c s x = Some s' ->
  q s ++ puts_of [x] = starts_of [x] ++ q s'.
Proof.
  intros Hm H. apply step_inv in H. destruct H; simpl; rewrite ?app_nil_r; try reflexivity; try congruence.
Qed.

Lemma starts_cons x r : starts_of (x :: r) = starts_of [x] ++ starts_of r.
Proof. destruct x; reflexivity. Qed.
Lemma puts_cons x r : puts_of (x :: r) = puts_of [x] ++ puts_of r.
Proof. destruct x; reflexivity. Qed.

Lemma wait_run_order c xs : forall s s' pre P,
  o_mode c = MWait -> orun c s xs = Some s' -> pre ++ q s = P ->
  (pre ++ starts_of xs) ++ q s' = P ++ puts_of xs.
Proof.
  induction xs as [|x r IH]; intros s s' pre P Hm.
  - cbn [orun starts_of puts_of]. intros H E; inversion H; subst. now rewrite !app_nil_r.
  - cbn [orun]. destruct (ostep_do c s x) as [s1|] eqn:E1; [|discriminate]. intros H E.
    pose proof (wait_step_order _ _ _ _ Hm E1) as W.
    assert (A : (pre ++ starts_of [x]) ++ q s1 = P ++ puts_of [x]).
    { rewrite <- app_assoc, <- W, app_assoc, E. reflexivity. }
    pose proof (IH s1 s' (pre ++ starts_of [x]) (P ++ puts_of [x]) Hm H A) as R.
    rewrite starts_cons, puts_cons. rewrite <- !app_assoc in *. exact R.
Qed.

Theorem wait_arrival_order c xs s :
  o_mode c = MWait -> orun c ostate0 xs = Some s ->
  starts_of xs ++ q s = puts_of xs.
Proof.
  intros Hm H. exact (wait_run_order c xs ostate0 s [] [] Hm H eq_refl).
Qed.

Corollary wait_runs_every_event_in_order c xs s :
  o_mode c = MWait -> orun c ostate0 xs = Some s -> quiescent s = true ->
  starts_of xs = puts_of xs.
Proof.
  intros Hm H Q. pose proof (wait_arrival_order _ _ _ Hm H) as W.
  unfold quiescent in Q. destruct (q s); [|discriminate]. now rewrite app_nil_r in W.
Qed.

(* ---------- the output counts the runs (a run includes its guard time) ---------- *)
Definition OutInv (s : ostate) : Prop :=
  oout s = (List.length (active s) + (if starting s then 1 else 0))%nat.

Lemma step_OutInv c s x s' : OutInv s -> ostep_do c s x = Some s' -> OutInv s'.
Proof.
  unfold OutInv. intros I H. apply step_inv in H.
  destruct H as [| t n _ _ Hn Hst Ho | t n act' _ _ _ _ Hn | t id rest _ _ Hst _ _ Ha | t id _ _ Hst _ _ | | | |];
    simpl; try assumption.
  - subst n. rewrite Ho. lia.
  - rewrite Hst, Ha in I. simpl in I. lia.
  - rewrite Hst in I. rewrite app_length. simpl. lia.
  - rewrite map_length. exact I.
  - match goal with Ha : active s = [] |- _ => rewrite Ha in I end. exact I.
Qed.

Theorem output_counts_runs c xs s :
  orun c ostate0 xs = Some s ->
  oout s = (List.length (active s) + (if starting s then 1 else 0))%nat.
Proof.
  assert (G : forall xs s0 s1, OutInv s0 -> orun c s0 xs = Some s1 -> OutInv s1).
  { clear. induction xs as [|x r IH]; intros s0 s1 I; simpl.
    - intros H; inversion H; subst; exact I.
    - destruct (ostep_do c s0 x) as [s2|] eqn:E; [|discriminate].
      apply IH. eapply step_OutInv; eassumption. }
  intros H. apply (G xs ostate0 s); [reflexivity|exact H].
Qed.

(* ---------- 'wait' and 'cancel' mode: at most one run; guard-time separation ---------- *)
Definition OneInv (s : ostate) : Prop := (List.length (active s) <= 1)%nat.

Lemma drop_due_length t l l' : drop_due t l = Some l' -> List.length l = S (List.length l').
Proof.
  revert l'. induction l as [|a r IH]; intros l'; simpl; [discriminate|].
  destruct (a_phase a) as [|u].
  - destruct (drop_due t r) as [r'|]; [|discriminate]. intros H; inversion H; subst. simpl.
    f_equal. now apply IH.
  - destruct (u =? t).
    + intros H; inversion H; subst. reflexivity.
    + destruct (drop_due t r) as [r'|]; [|discriminate]. intros H; inversion H; subst. simpl.
      f_equal. now apply IH.
Qed.

Lemma step_OneInv c s x s' : o_mode c <> MStart -> OneInv s -> ostep_do c s x = Some s' -> OneInv s'.
Proof.
  unfold OneInv. intros Hm I H. apply step_inv in H.
  destruct H; simpl; try assumption; try congruence.
  - match goal with E : drop_due _ _ = Some _ |- _ => apply drop_due_length in E; lia end.
  - lia.
  - now rewrite map_length.
  - lia.
Qed.

Lemma run_OneInv c xs : forall s s', o_mode c <> MStart -> OneInv s -> orun c s xs = Some s' -> OneInv s'.
Proof.
  induction xs as [|x r IH]; intros s s' Hm I; simpl.
  - intros H; inversion H; subst; exact I.
  - destruct (ostep_do c s x) as [s1|] eqn:E; [|discriminate]. apply IH; [exact Hm|].
    eapply step_OneInv; eassumption.
Qed.

(* a run in its guard time stays until the guard time is over *)
Lemma guard_step c s x s' id u :
  o_mode c <> MStart ->
  active s = [{| a_id := id; a_phase := PhGuard u |}] -> ostep_do c s x = Some s' ->
  active s' = [{| a_id := id; a_phase := PhGuard u |}] \/ u <= onow s'.
Proof.
  intros Hmode Ha H. apply step_inv in H.
  destruct H as [| | t n act' _ _ _ Hd _ | t i rest _ _ _ _ _ Hn | t i _ _ _ Hm Hq | t i r _ _ Hc _ | | |];
    simpl; auto.
  - rewrite Ha in Hd. simpl in Hd. destruct (u =? t) eqn:E; [|discriminate].
    apply Z.eqb_eq in E. right. lia.
  - rewrite Ha in Hn. discriminate.
  - contradiction.
  - unfold in_coro in Hc. rewrite Ha in Hc. simpl in Hc. rewrite andb_false_r in Hc. discriminate.
  - match goal with E : active s = [] |- _ => rewrite Ha in E; discriminate end.
Qed.

Lemma guard_run c xs : forall s s' id u,
  o_mode c <> MStart ->
  active s = [{| a_id := id; a_phase := PhGuard u |}] -> orun c s xs = Some s' ->
  active s' = [{| a_id := id; a_phase := PhGuard u |}] \/ u <= onow s'.
Proof.
  induction xs as [|x r IH]; intros s s' id u Hm Ha; simpl.
  - intros H; inversion H; subst. now left.
  - destruct (ostep_do c s x) as [s1|] eqn:E; [|discriminate]. intros H.
    destruct (guard_step _ _ _ _ _ _ Hm Ha E) as [Ha1|Hu].
    + eapply IH; eassumption.
    + right. apply run_time in H. lia.
Qed.

(* consecutive runs in 'wait' and 'cancel' mode are separated by at least guard_time, counted
   from the end of the previous run - whether it returned, failed or was cancelled *)
Theorem guard_separation c pre t1 id1 r mid t2 id2 post s :
  o_mode c <> MStart ->
  orun c ostate0 (pre ++ OEnd t1 id1 r :: mid ++ OStart t2 id2 :: post) = Some s ->
  t1 + o_guard c <= t2.
Proof.
  intros Hm H.
  apply orun_app in H as (s0 & H0 & H). cbn [orun] in H.
  destruct (ostep_do c s0 (OEnd t1 id1 r)) as [s1|] eqn:E1; [|discriminate].
  apply orun_app in H as (s2 & H2 & H). cbn [orun] in H.
  destruct (ostep_do c s2 (OStart t2 id2)) as [s3|] eqn:E3; [|discriminate].
  assert (I0 : OneInv s0) by (eapply run_OneInv; [exact Hm| |exact H0]; unfold OneInv; simpl; lia).
  assert (A1 : active s1 = [{| a_id := id1; a_phase := PhGuard (t1 + o_guard c) |}]).
  { apply step_inv in E1. inversion E1; subst. simpl.
    match goal with Hc : in_coro id1 s0 = true |- _ => unfold in_coro in Hc end.
    unfold OneInv in I0. destruct (active s0) as [|a [|b l]]; simpl in *; try discriminate; try lia.
    rewrite orb_false_r in *. match goal with Hc : _ && _ = true |- _ => apply andb_true_iff in Hc as [Hc _]; rewrite Hc end.
    reflexivity. }
  destruct (guard_run _ _ _ _ _ _ Hm A1 H2) as [A2|Hu].
  - apply step_inv in E3. inversion E3; subst; try congruence.
  - apply step_inv in E3. inversion E3; subst; lia.
Qed.

(* ---------- 'cancel' mode: the most recent event is never cancelled ---------- *)
Definition newest (s : ostate) : option nat := hd_error (seen s).

Definition NewInv (c : ocfg) (s : ostate) : Prop :=
  forall n, newest s = Some n ->
    (In n (q s) -> exists p, q s = p ++ [n]) /\
    (~ In n (q s) -> q s = []) /\
    (forall r, owed s = Some (n, r) -> r = OCancelled -> In n (o_selfcancel c)).

Lemma cnt_pos_in i l : In i l -> (1 <= cnt i l)%nat.
Proof. intros H. unfold cnt. apply (proj1 (count_occ_In Nat.eq_dec l i)) in H. lia. Qed.
Lemma cnt_zero_notin i l : cnt i l = 0%nat -> ~ In i l.
Proof. intros H Hin. apply cnt_pos_in in Hin. lia. Qed.

Lemma last_shift (h : nat) rest p n : h :: rest = p ++ [n] -> In n rest -> exists p', rest = p' ++ [n].
Proof.
  destruct p as [|a p']; simpl; intros E Hin.
  - inversion E; subst. destruct Hin.
  - inversion E; subst. now exists p'.
Qed.
Lemma last_shift_not (h : nat) rest p n : h :: rest = p ++ [n] -> ~ In n rest -> rest = [].
Proof.
  destruct p as [|a p']; simpl; intros E Hn.
  - now inversion E.
  - inversion E; subst. exfalso. apply Hn. apply in_or_app. right. now left.
Qed.

Lemma step_NewInv c s x s' :
  o_mode c = MCancel -> PInv s -> NewInv c s -> ostep_do c s x = Some s' -> NewInv c s'.
Proof.
  intros Hm [HC HU] I H. apply step_inv in H.
  destruct H as [t id _ Ho Hs | t k | t k a' | t id rest _ Ho _ _ Hq Ha | | t id r _ Ho Hc Hr | t id r _ Ho
                 | t id h2 rest _ Ho _ Hq Ha | ]; unfold NewInv, newest in *; simpl; try exact I;
    try congruence.
  - (* put *)
    intros n E. inversion E; subst n. split; [|split].
    + intros _. now exists (q s).
    + intros Hn. exfalso. apply Hn. apply in_or_app. right. now left.
    + discriminate.
  - (* up *) intros n E. destruct (I n E) as (A & B & _). repeat split; auto. discriminate.
  - (* down *) intros n E. destruct (I n E) as (A & B & _). repeat split; auto. discriminate.
  - (* start *)
    intros n E. destruct (I n E) as (A & B & _). rewrite Hq in *. split; [|split].
    + intros Hin. destruct (A (or_intror Hin)) as (p & Ep). eapply last_shift; eassumption.
    + intros Hn. destruct (Nat.eq_dec id n) as [->|Ne].
      * destruct (A (or_introl eq_refl)) as (p & Ep). eapply last_shift_not; eassumption.
      * assert (Hq' : In n (id :: rest) \/ ~ In n (id :: rest)).
        { destruct (in_dec Nat.eq_dec n (id :: rest)); auto. }
        destruct Hq' as [Hi|Hni].
        -- destruct (A Hi) as (p & Ep). eapply last_shift_not; eassumption.
        -- specialize (B Hni). discriminate.
    + discriminate.
  - (* end *)
    intros n E. destruct (I n E) as (A & B & _). split; [exact A|split; [exact B|]].
    intros r0 Eo Ec. inversion Eo; subst. destruct (Hr eq_refl) as [Hsc|[_ Hne]]; [exact Hsc|].
    exfalso. apply Hne. apply B. apply cnt_zero_notin.
    apply cnt_in_coro in Hc. specialize (HC n). specialize (HU n). lia.
  - (* result owed *) intros n E. destruct (I n E) as (A & B & _). repeat split; auto. discriminate.
  - (* discard *)
    intros n E. destruct (I n E) as (A & B & _). rewrite Hq in *. split; [|split].
    + intros Hin. destruct (A (or_intror Hin)) as (p & Ep). eapply last_shift; eassumption.
    + intros Hn. exfalso.
      destruct (in_dec Nat.eq_dec n (id :: h2 :: rest)) as [Hi|Hni].
      * destruct (A Hi) as (p & Ep). apply (last_shift_not _ _ _ _ Ep) in Hn. discriminate.
      * specialize (B Hni). discriminate.
    + discriminate.
Qed.

(* a result event 'cancelled' never carries the newest put of that moment *)
Lemma cancelled_not_newest c s t id s' :
  o_mode c = MCancel -> PInv s -> NewInv c s -> ~ In id (o_selfcancel c) ->
  ostep_do c s (OResult t id OCancelled) = Some s' -> newest s <> Some id.
Proof.
  intros Hm [HC HU] I Hnsc H E. destruct (I id E) as (A & B & C). apply step_inv in H.
  inversion H; subst.
  - apply Hnsc. eapply C; eauto.
  - match goal with Hq : q s = _ |- _ => rewrite Hq in * end.
    destruct (A (or_introl eq_refl)) as (p & Ep).
    assert (2 <= cnt id (id :: h2 :: rest))%nat.
    { destruct p as [|a p]; [discriminate|]. simpl in Ep. inversion Ep as [[Ea Et]].
      rewrite cnt_cons, Nat.eqb_refl, Et, cnt_app, cnt_cons, Nat.eqb_refl. lia. }
    specialize (HC id). specialize (HU id).
    try match goal with Hq : q s = _ |- _ => rewrite Hq in HC end. lia.
Qed.

Lemma NewInv0 c : NewInv c ostate0.
Proof. unfold NewInv, newest. simpl. discriminate. Qed.

Lemma run_NewInv c xs : forall s s',
  o_mode c = MCancel -> PInv s -> NewInv c s -> orun c s xs = Some s' -> NewInv c s'.
Proof.
  induction xs as [|x r IH]; intros s s' Hm P I; simpl.
  - intros H; inversion H; subst; exact I.
  - destruct (ostep_do c s x) as [s1|] eqn:E; [|discriminate]. apply IH; [exact Hm| |].
    + eapply step_PInv; eassumption.
    + eapply step_NewInv; eassumption.
Qed.

Lemma hd_error_rev_app (l m : list nat) n : hd_error (rev (l ++ [n]) ++ m) = Some n.
Proof. rewrite rev_app_distr. reflexivity. Qed.

(* in every accepted 'cancel' mode history the most recent put is never reported as cancelled *)
Theorem cancel_newest_never_cancelled c xs s p last :
  o_mode c = MCancel -> orun c ostate0 xs = Some s -> puts_of xs = p ++ [last] ->
  ~ In last (o_selfcancel c) ->
  forall t, ~ In (OResult t last OCancelled) xs.
Proof.
  intros Hm H Hp Hnsc t Hin.
  apply in_split in Hin as (pre & post & ->).
  apply orun_app in H as (s0 & H0 & H). cbn [orun] in H.
  destruct (ostep_do c s0 (OResult t last OCancelled)) as [s1|] eqn:E1; [|discriminate].
  assert (P0 : PInv s0) by (eapply run_PInv; [apply PInv0|exact H0]).
  assert (N0 : NewInv c s0) by (eapply run_NewInv; [exact Hm|apply PInv0|apply NewInv0|exact H0]).
  pose proof (cancelled_not_newest _ _ _ _ _ Hm P0 N0 Hnsc E1) as Hne.
  (* 'last' was put before this step (it is pending or owed), so it is in seen s0 *)
  assert (P1 : PInv s1) by (eapply step_PInv; eassumption).
  destruct (step_lists _ _ _ _ E1) as [Hs1 Hr1]. simpl in Hs1, Hr1.
  assert (In1 : In last (seen s1)).
  { destruct P1 as [HC1 _]. specialize (HC1 last). rewrite Hr1, cnt_cons, Nat.eqb_refl in HC1.
    apply (count_occ_In Nat.eq_dec). fold (cnt last (seen s1)). lia. }
  destruct (run_lists _ _ _ _ H) as [Hs _].
  destruct (run_lists _ _ _ _ H0) as [Hs0 _]. simpl in Hs0. rewrite app_nil_r in Hs0.
  assert (Pp : puts_of (pre ++ OResult t last OCancelled :: post) = puts_of pre ++ puts_of post).
  { clear. induction pre as [|x r IH]; simpl; [reflexivity|]. destruct x; simpl; now rewrite ?IH. }
  rewrite Pp in Hp.
  destruct (puts_of post) as [|a l] eqn:Epost using rev_ind.
  - (* no later put: 'last' is the newest at the step *)
    rewrite app_nil_r in Hp. apply Hne. unfold newest. rewrite Hs0, Hp.
    rewrite <- (app_nil_r (rev (p ++ [last]))). apply hd_error_rev_app.
  - clear IHl. rewrite app_assoc in Hp. apply app_inj_tail in Hp as [_ ->].
    (* a later put of the same id: refused, ids are unique *)
    assert (PS : PInv s) by (eapply run_PInv; [exact P1|exact H]).
    destruct PS as [_ HUs]. specialize (HUs last). rewrite Hs, cnt_app, cnt_rev, cnt_app, cnt_cons, Nat.eqb_refl in HUs.
    apply cnt_pos_in in In1. lia.
Qed.

(* ... and, the history ending quiescent, it has exactly one result, which is success or error:
   the most recent event always runs to completion *)
Corollary cancel_most_recent_completes c xs s p last :
  o_mode c = MCancel -> orun c ostate0 xs = Some s -> quiescent s = true ->
  puts_of xs = p ++ [last] -> ~ In last (o_selfcancel c) ->
  count_results last xs = 1%nat /\ forall t, ~ In (OResult t last OCancelled) xs.
Proof.
  intros Hm H Q Hp Hnsc. split.
  - destruct (one_result_per_put _ _ _ H Q) as [A _]. apply A. rewrite Hp. apply in_or_app. right. now left.
  - eapply cancel_newest_never_cancelled; eassumption.
Qed.

(* ---------- 'start' mode: every event starts its own run ---------- *)
Lemma start_step_count c s x s' i :
  o_mode c = MStart -> PInv s -> ostep_do c s x = Some s' ->
  (cnt i (q s) + cnt i (puts_of [x]) = cnt i (starts_of [x]) + cnt i (q s'))%nat.
Proof.
  intros Hm [HC HU] H. apply step_inv in H.
  destruct H as [t id _ _ _ | | | t id rest _ _ _ Hn _ _ | t id _ _ _ _ Hin | | | t id h2 rest _ _ Hc _ _ | ];
    cbn [q upd puts_of starts_of]; rewrite ?cnt_nil, ?cnt_app, ?cnt_cons, ?cnt_nil; try lia; try congruence.
  - (* start *)
    rewrite cnt_remn. rewrite Nat.eqb_sym. destruct (Nat.eqb i id) eqn:E.
    + apply Nat.eqb_eq in E. subst i. apply cnt_pos_in in Hin.
      specialize (HC id). specialize (HU id). lia.
    + lia.
Qed.

Lemma start_run_count c xs : forall s s' i,
  o_mode c = MStart -> PInv s -> orun c s xs = Some s' ->
  (cnt i (q s) + cnt i (puts_of xs) = cnt i (starts_of xs) + cnt i (q s'))%nat.
Proof.
  induction xs as [|x r IH]; intros s s' i Hm HP.
  - cbn [orun puts_of starts_of]. intros H; inversion H; subst. rewrite !cnt_nil. lia.
  - cbn [orun]. destruct (ostep_do c s x) as [s1|] eqn:E; [|discriminate]. intros H.
    pose proof (start_step_count _ _ _ _ i Hm HP E) as A.
    pose proof (IH s1 s' i Hm (step_PInv _ _ _ _ HP E) H) as B.
    rewrite starts_cons, puts_cons, !cnt_app. lia.
Qed.

(* in 'start' mode every accepted put starts exactly one run, and nothing else is started *)
Theorem start_mode_every_event_runs c xs s :
  o_mode c = MStart -> orun c ostate0 xs = Some s -> quiescent s = true ->
  forall id, cnt id (starts_of xs) = cnt id (puts_of xs) /\ (cnt id (puts_of xs) <= 1)%nat.
Proof.
  intros Hm H Q id. pose proof (start_run_count c xs ostate0 s id Hm PInv0 H) as A.
  unfold quiescent in Q. destruct (q s) eqn:Eq; [|discriminate].
  cbn [q ostate0] in A. rewrite !cnt_nil in A. split; [lia|].
  destruct (run_PInv _ _ _ _ PInv0 H) as [_ HU]. specialize (HU id).
  destruct (run_lists _ _ _ _ H) as [Hs _]. simpl in Hs. rewrite app_nil_r in Hs.
  rewrite Hs, cnt_rev in HU. exact HU.
Qed.

(* ---------- stop_data is processed last ---------- *)
Definition other_run_step (id : nat) (x : ostep) : Prop :=
  match x with
  | OStart _ i => i <> id
  | OEnd _ i _ => i <> id
  | _ => False
  end.

Lemma stop_last_seen : forall id xs, stop_last id true xs = true -> forall x, In x xs -> ~ other_run_step id x.
Proof.
  intros id xs; induction xs as [|y r IH]; intros H x Hin; [destruct Hin|].
  destruct Hin as [Hx|Hx].
  - subst y; destruct x as [t i|t i|t i o|t i o|t n|t]; simpl in *; try tauto.
    + destruct (Nat.eqb i id) eqn:E; [apply Nat.eqb_eq in E; intros Hne; apply Hne; exact E | discriminate].
    + destruct (Nat.eqb i id) eqn:E; [apply Nat.eqb_eq in E; intros Hne; apply Hne; exact E | discriminate].
  - apply IH; [|exact Hx].
    destruct y as [t i|t i|t i o|t i o|t n|t]; simpl in H; try exact H.
    + destruct (Nat.eqb i id); [exact H | discriminate].
    + destruct (Nat.eqb i id); [exact H | discriminate].
Qed.

Lemma stop_last_after : forall id pre seen t post,
  stop_last id seen (pre ++ OStart t id :: post) = true -> stop_last id true post = true.
Proof.
  intros id pre; induction pre as [|y r IH]; intros seen t post H.
  - simpl in H; rewrite Nat.eqb_refl in H; exact H.
  - destruct y as [u i|u i|u i o|u i o|u n|u]; simpl in H; try (eapply IH; exact H).
    + destruct (Nat.eqb i id); [eapply IH; exact H|].
      apply andb_true_iff in H; destruct H as [_ H]; eapply IH; exact H.
    + destruct (Nat.eqb i id); [eapply IH; exact H|].
      apply andb_true_iff in H; destruct H as [_ H]; eapply IH; exact H.
Qed.

(* once the run for the stop_data (put id) has started, no other run starts or ends *)
Theorem stop_data_last : forall id pre t post,
  stop_last id false (pre ++ OStart t id :: post) = true ->
  forall x, In x post -> ~ other_run_step id x.
Proof.
  intros id pre t post H; apply stop_last_seen; eapply stop_last_after; exact H.
Qed.
