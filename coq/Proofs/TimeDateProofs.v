From Verif Require Import Values Interval IntervalParse IntervalProofs TimeDate.
From Coq Require Import Lia ZifyBool.
Open Scope list_scope.
Open Scope Z_scope.
Ltac Zify.zify_post_hook ::= Z.to_euclidean_division_equations.

(* ---------- why recalculating at the alarm points suffices ---------- *)
Definition ranges_valid (t : list range) : Prop :=
  forall r, In r t -> valid_time (fst r) = true /\ valid_time (snd r) = true.

Lemma range_constant a b x1 x2 :
  valid_time a = true -> valid_time b = true -> valid_time x1 = true -> valid_time x2 = true ->
  time_key x1 <= time_key x2 ->
  ~ (time_key x1 < time_key a <= time_key x2) -> ~ (time_key x1 < time_key b <= time_key x2) ->
  in_range_k KTime (a, b) x1 = in_range_k KTime (a, b) x2.
Proof.
  intros Ha Hb H1 H2 Hle Na Nb. cbn [in_range_k fst snd]. unfold cmp_open.
  rewrite !time_lex_lt, !time_lex_le by assumption.
  destruct (time_key a <? time_key b) eqn:E; lia.
Qed.

Lemma contains_constant t x1 x2 :
  ranges_valid t -> valid_time x1 = true -> valid_time x2 = true -> time_key x1 <= time_key x2 ->
  (forall r, In r t -> ~ (time_key x1 < time_key (fst r) <= time_key x2) /\
                       ~ (time_key x1 < time_key (snd r) <= time_key x2)) ->
  contains KTime t x1 = contains KTime t x2.
Proof.
  intros V H1 H2 Hle N. unfold contains.
  induction t as [|[a b] t IH]; [reflexivity|]. simpl.
  destruct (V (a, b) (or_introl eq_refl)) as [Va Vb]. destruct (N (a, b) (or_introl eq_refl)) as [Na Nb].
  change (cmp_open a x1 b) with (in_range_k KTime (a, b) x1).
  change (cmp_open a x2 b) with (in_range_k KTime (a, b) x2).
  rewrite (range_constant a b x1 x2) by assumption. f_equal. apply IH.
  - intros r Hr. apply V. now right.
  - intros r Hr. apply N. now right.
Qed.

(* two readings of the same day with no end point of a time range in (t1, t2] give the same
   TimeDate output: dates and weekdays can change at midnight only, time ranges at their end points *)
Theorem timedate_constant_between_alarms times dates wds r1 r2 :
  match times with Some t => ranges_valid t | None => True end ->
  r_date r1 = r_date r2 -> r_wd r1 = r_wd r2 ->
  valid_time (r_tod r1) = true -> valid_time (r_tod r2) = true ->
  time_key (r_tod r1) <= time_key (r_tod r2) ->
  (forall p, In p (alarm_points (CTimeDate times dates wds) r1) ->
             ~ (time_key (r_tod r1) < time_key p <= time_key (r_tod r2))) ->
  pred (CTimeDate times dates wds) r1 = pred (CTimeDate times dates wds) r2.
Proof.
  intros V Hd Hw H1 H2 Hle N. unfold pred. rewrite Hd, Hw.
  destruct times as [t|]; [|reflexivity].
  rewrite (contains_constant t (r_tod r1) (r_tod r2)); auto.
  intros r Hr. split; apply N; unfold alarm_points; apply in_or_app; left;
    apply in_flat_map; exists r; (split; [exact Hr|simpl; auto]).
Qed.

(* a TimeSpan changes only at the end points of its ranges *)
Theorem timespan_constant span x1 x2 :
  (forall r, In r span ->
     (lex_le (fst r) x1 = lex_le (fst r) x2) /\ (lex_lt x1 (snd r) = lex_lt x2 (snd r))) ->
  contains KDateTime span x1 = contains KDateTime span x2.
Proof.
  intros N. unfold contains. induction span as [|[a b] t IH]; [reflexivity|]. simpl.
  destruct (N (a, b) (or_introl eq_refl)) as [A B]. simpl in A, B. unfold cmp_dt. rewrite A, B.
  f_equal. apply IH. intros r Hr. apply N. now right.
Qed.

(* nothing configured or an empty set: the output is False *)
Theorem unconfigured_false r : pred (CTimeDate None None None) r = false.
Proof. reflexivity. Qed.
Theorem empty_times_false dates wds r : pred (CTimeDate (Some []) dates wds) r = false.
Proof. reflexivity. Qed.
Theorem empty_weekdays_false times dates r : pred (CTimeDate times dates (Some [])) r = false.
Proof. unfold pred. cbn [existsb]. now rewrite !andb_false_r. Qed.

(* ---------- cron arithmetic ---------- *)
(* sleeptime is the forward distance to the wake-up when it is still ahead on the same day, or
   across midnight from hour 23 to hour 0; otherwise it is negative or zero (the alarm is over) *)
Theorem sleeptime_spec now w : valid_time now = true -> valid_time w = true ->
  (time_key now <= time_key w -> 0 <= sleeptime_us now w /\
      (sleeptime_us now w = time_key w - time_key now \/
       sleeptime_us now w = time_key w - time_key now + day_us)) /\
  (nth 0 now 0 = 23 -> nth 0 w 0 = 0 ->
      sleeptime_us now w = (time_key w - time_key now) mod day_us /\ 0 < sleeptime_us now w <= 2 * hour_us).
Proof.
  destruct now as [|h [|m [|s [|u [|? ?]]]]]; try discriminate.
  destruct w as [|h' [|m' [|s' [|u' [|? ?]]]]]; try discriminate.
  unfold valid_time, in_range, sleeptime_us, time_key, day_us, hour_us. cbn [nth].
  intros V1 V2. split.
  - intros Hle. destruct ((h =? 23) && (h' =? 0)) eqn:E; lia.
  - intros -> ->. change ((23 =? 23) && (0 =? 0)) with true. cbv iota. lia.
Qed.

(* the timetable contains the 24 full hours and every alarm; hence there is always a wake-up at
   most one hour ahead - a clock jump is noticed within the hour *)
Lemma ins_tod_in x y l : In y (ins_tod x l) <-> x = y \/ In y l.
Proof.
  induction l as [|z r IH]; simpl; [tauto|].
  destruct (lex_lt x z); simpl; [tauto|].
  destruct (list_eqb x z) eqn:E; simpl.
  - apply list_eqb_eq in E. subst. tauto.
  - rewrite IH. tauto.
Qed.

Lemma timetable_in alarms y : In y (hours24 ++ alarms) -> In y (timetable alarms).
Proof.
  unfold timetable.
  assert (G : forall l acc, (In y l \/ In y acc) -> In y (fold_left (fun acc x => ins_tod x acc) l acc)).
  { induction l as [|x r IH]; intros acc H; simpl; [destruct H as [[]|H]; exact H|].
    apply IH. destruct H as [[E|H]|H]; [right; apply ins_tod_in; now left|now left|].
    right. apply ins_tod_in. now right. }
  intros H. apply G. now left.
Qed.

Theorem hourly_wakeup_exists alarms now : valid_time now = true ->
  exists e, In e (timetable alarms) /\
            0 < (time_key e - time_key now) mod day_us <= hour_us.
Proof.
  destruct now as [|h [|m [|s [|u [|? ?]]]]]; try discriminate.
  intros V. unfold valid_time, in_range in V.
  exists [(h + 1) mod 24; 0; 0; 0]. split.
  - apply timetable_in. apply in_or_app. left. unfold hours24.
    apply in_map_iff. exists (Z.to_nat ((h + 1) mod 24)). split.
    + f_equal. lia.
    + apply in_seq. lia.
  - unfold time_key, day_us, hour_us. lia.
Qed.

Theorem alarms_in_timetable alarms a : In a alarms -> In a (timetable alarms).
Proof. intros H. apply timetable_in. apply in_or_app. now right. Qed.

(* bisect_left: everything before the index is earlier than x, the entry at the index is not *)
Theorem bisect_left_spec tt x :
  (forall i, (i < bisect_left tt x)%nat -> lex_lt (nth i tt []) x = true) /\
  (forall y, nth_error tt (bisect_left tt x) = Some y -> lex_lt y x = false).
Proof.
  induction tt as [|y r [IH1 IH2]]; simpl.
  - split; [intros i Hi; lia|discriminate].
  - destruct (lex_lt y x) eqn:E; simpl.
    + split.
      * intros [|i] Hi; [exact E|]. apply IH1. lia.
      * exact IH2.
    + split; [intros i Hi; lia|]. intros z Hz. inversion Hz; subst. exact E.
Qed.
