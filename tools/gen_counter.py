#!/usr/bin/env python3
"""Translator: edzed.Counter (edzed/blocklib/sblocks1.py) -> coq/Gen/GenCounter.v

The model of Counter used by the C20 theorems (coq/Model/Counter.v) is written by hand; this
translator regenerates an independent Gallina rendering of the class FROM THE SOURCE on every run,
and coq/Gen/GenCounterProofs.v proves that the hand-written step function and the generated one are
the same function.  The translator is fail-closed: it accepts exactly the statement and expression
shapes listed below and raises TranslationError on anything else (a refactoring of the class then
shows up as "translation failed", never as a silently wrong model).

Accepted Python (class Counter only):
  __init__(self, *args, modulo=None, initdef=0, **kwargs):
      if modulo == 0: raise ValueError(...)
      self._mod = modulo
      super().__init__(*args, initdef=initdef, **kwargs)
  def _setmod(self, value):
      output = EXPR ; self.set_output(output) ; return output
  def _event_NAME(self, *, kw[=const]..., **_data):  return self._setmod(EXPR)
  NAME = _setmod                                      (class-level aliases)
  EXPR ::= name | int constant | self._output | self.initdef | self._mod (inside the else-branch
           of "X if self._mod is None else Y") | EXPR + EXPR | EXPR - EXPR | EXPR % EXPR
           | X if self._mod is None else Y
"""
from __future__ import annotations

import ast
import sys
from pathlib import Path


class TranslationError(Exception):
    pass


def fail(node, what):
    line = getattr(node, 'lineno', '?')
    raise TranslationError(f"sblocks1.py:{line}: {what}: {ast.dump(node)[:200] if isinstance(node, ast.AST) else node}")


def is_self_attr(node, attr):
    return (isinstance(node, ast.Attribute) and isinstance(node.value, ast.Name) and node.value.id == 'self'
            and node.attr == attr)


def expr(node, env, mod_bound):
    """Python expression -> Gallina term of type Q.  env: python name -> Gallina name;
    mod_bound: the Gallina name of the modulo when we are inside the 'not None' branch."""
    if isinstance(node, ast.Name):
        if node.id not in env:
            fail(node, "unknown name")
        return env[node.id]
    if isinstance(node, ast.Constant):
        if isinstance(node.value, bool) or not isinstance(node.value, int):
            fail(node, "only integer constants are translated")
        return f"(inject_Z ({node.value}))"
    if is_self_attr(node, '_output'):
        return 'out'
    if is_self_attr(node, 'initdef'):
        return 'initdef'
    if is_self_attr(node, '_mod'):
        if mod_bound is None:
            fail(node, "self._mod used where it may be None")
        return mod_bound
    if isinstance(node, ast.BinOp):
        a, b = expr(node.left, env, mod_bound), expr(node.right, env, mod_bound)
        if isinstance(node.op, ast.Add):
            return f"({a} + {b})"
        if isinstance(node.op, ast.Sub):
            return f"({a} - {b})"
        if isinstance(node.op, ast.Mod):
            return f"(pymod {a} {b})"
        fail(node, "operator not translated")
    if isinstance(node, ast.IfExp):
        t = node.test
        if not (isinstance(t, ast.Compare) and is_self_attr(t.left, '_mod') and len(t.ops) == 1
                and isinstance(t.ops[0], ast.Is) and isinstance(t.comparators[0], ast.Constant)
                and t.comparators[0].value is None):
            fail(node, "only 'X if self._mod is None else Y' is translated")
        x = expr(node.body, env, None)
        y = expr(node.orelse, env, 'mm')
        return f"(match m with None => {x} | Some mm => {y} end)"
    fail(node, "expression not translated")


def setmod_call(node, env):
    """self._setmod(EXPR) -> Gallina pair (returned value, new output)"""
    if not (isinstance(node, ast.Call) and is_self_attr(node.func, '_setmod') and len(node.args) == 1
            and not node.keywords):
        fail(node, "expected self._setmod(EXPR)")
    return f"(g_setmod m {expr(node.args[0], env, None)})"


def translate(src: str) -> str:
    tree = ast.parse(src)
    cls = [n for n in tree.body if isinstance(n, ast.ClassDef) and n.name == 'Counter']
    if len(cls) != 1:
        raise TranslationError("class Counter not found exactly once")
    cls = cls[0]
    out = []
    seen = set()
    for item in cls.body:
        if isinstance(item, ast.Expr) and isinstance(item.value, ast.Constant) and isinstance(item.value.value, str):
            continue                                       # docstring
        if isinstance(item, ast.Assign):
            if not (len(item.targets) == 1 and isinstance(item.targets[0], ast.Name)
                    and isinstance(item.value, ast.Name) and item.value.id == '_setmod'):
                fail(item, "class-level statement not translated")
            name = item.targets[0].id
            if name not in ('init_from_value', '_restore_state'):
                fail(item, "unexpected alias")
            out.append(f"Definition g_{name.lstrip('_')} := g_setmod.")
            seen.add(name)
            continue
        if not isinstance(item, ast.FunctionDef):
            fail(item, "class member not translated")
        if item.decorator_list:
            fail(item, "decorators not translated")
        a = item.args
        if item.name == '__init__':
            kw = [k.arg for k in a.kwonlyargs]
            if ([x.arg for x in a.args] != ['self'] or a.vararg is None or a.kwarg is None
                    or kw != ['modulo', 'initdef'] or a.posonlyargs or a.defaults):
                fail(item, "unexpected signature of __init__")
            d_mod, d_init = a.kw_defaults
            if not (isinstance(d_mod, ast.Constant) and d_mod.value is None):
                fail(item, "default of modulo must be None")
            if not (isinstance(d_init, ast.Constant) and isinstance(d_init.value, int)
                    and not isinstance(d_init.value, bool)):
                fail(item, "default of initdef must be an integer")
            body = [s for s in item.body if not (isinstance(s, ast.Expr) and isinstance(s.value, ast.Constant))]
            if len(body) != 3:
                fail(item, "unexpected body of __init__")
            s0, s1, s2 = body
            if not (isinstance(s0, ast.If) and not s0.orelse and len(s0.body) == 1 and isinstance(s0.body[0], ast.Raise)
                    and isinstance(s0.test, ast.Compare) and isinstance(s0.test.left, ast.Name)
                    and s0.test.left.id == 'modulo' and len(s0.test.ops) == 1 and isinstance(s0.test.ops[0], ast.Eq)
                    and isinstance(s0.test.comparators[0], ast.Constant)
                    and isinstance(s0.test.comparators[0].value, int)
                    and not isinstance(s0.test.comparators[0].value, bool)):
                fail(s0, "expected 'if modulo == CONST: raise ...'")
            exc = s0.body[0].exc
            if not (isinstance(exc, ast.Call) and isinstance(exc.func, ast.Name) and exc.func.id == 'ValueError'):
                fail(s0, "expected raise ValueError(...)")
            if not (isinstance(s1, ast.Assign) and len(s1.targets) == 1 and is_self_attr(s1.targets[0], '_mod')
                    and isinstance(s1.value, ast.Name) and s1.value.id == 'modulo'):
                fail(s1, "expected 'self._mod = modulo'")
            c = s2.value if isinstance(s2, ast.Expr) else None
            if not (isinstance(c, ast.Call) and isinstance(c.func, ast.Attribute) and c.func.attr == '__init__'
                    and isinstance(c.func.value, ast.Call) and isinstance(c.func.value.func, ast.Name)
                    and c.func.value.func.id == 'super'
                    and any(k.arg == 'initdef' and isinstance(k.value, ast.Name) and k.value.id == 'initdef'
                            for k in c.keywords)):
                fail(s2, "expected super().__init__(*args, initdef=initdef, **kwargs)")
            out.append("(* Counter(modulo=...) is refused with ValueError iff: *)")
            out.append(f"Definition g_create_refuses (modulo : Q) : bool := "
                       f"Qeq_bool modulo (inject_Z ({s0.test.comparators[0].value})).")
            out.append(f"Definition g_default_initdef : Q := inject_Z ({d_init.value}).")
            seen.add('__init__')
            continue
        if item.name == '_setmod':
            if ([x.arg for x in a.args] != ['self', 'value'] or a.vararg or a.kwarg or a.kwonlyargs
                    or a.defaults or a.posonlyargs):
                fail(item, "unexpected signature of _setmod")
            body = [s for s in item.body if not (isinstance(s, ast.Expr) and isinstance(s.value, ast.Constant))]
            if len(body) != 3:
                fail(item, "unexpected body of _setmod")
            s0, s1, s2 = body
            if not (isinstance(s0, ast.Assign) and len(s0.targets) == 1 and isinstance(s0.targets[0], ast.Name)):
                fail(s0, "expected 'output = EXPR'")
            var = s0.targets[0].id
            e = expr(s0.value, {'value': 'value'}, None)
            c = s1.value if isinstance(s1, ast.Expr) else None
            if not (isinstance(c, ast.Call) and is_self_attr(c.func, 'set_output') and len(c.args) == 1
                    and not c.keywords and isinstance(c.args[0], ast.Name) and c.args[0].id == var):
                fail(s1, "expected self.set_output(output)")
            if not (isinstance(s2, ast.Return) and isinstance(s2.value, ast.Name) and s2.value.id == var):
                fail(s2, "expected 'return output'")
            out.append("(* _setmod: (returned value, new output) *)")
            out.append(f"Definition g_setmod (m : option Q) (value : Q) : Q * Q :=\n"
                       f"  let output := {e} in (output, output).")
            seen.add('_setmod')
            continue
        if item.name.startswith('_event_'):
            ev = item.name[len('_event_'):]
            if ([x.arg for x in a.args] != ['self'] or a.vararg or a.kwarg is None or a.posonlyargs or a.defaults):
                fail(item, "unexpected signature of an event handler")
            env = {}
            params = []
            for k, d in zip(a.kwonlyargs, a.kw_defaults):
                env[k.arg] = k.arg
                params.append(k.arg)
                if d is None:
                    out.append(f"Definition g_event_{ev}_requires_{k.arg} : bool := true.")
                else:
                    if not (isinstance(d, ast.Constant) and isinstance(d.value, int) and not isinstance(d.value, bool)):
                        fail(d, "only integer defaults are translated")
                    out.append(f"Definition g_event_{ev}_default_{k.arg} : Q := inject_Z ({d.value}).")
            body = [s for s in item.body if not (isinstance(s, ast.Expr) and isinstance(s.value, ast.Constant))]
            if not (len(body) == 1 and isinstance(body[0], ast.Return)):
                fail(item, "expected a single 'return self._setmod(EXPR)'")
            call = setmod_call(body[0].value, env)
            ps = ''.join(f" ({p} : Q)" for p in params)
            out.append(f"Definition g_event_{ev} (m : option Q) (out initdef : Q){ps} : Q * Q :=\n  {call}.")
            seen.add(item.name)
            continue
        fail(item, "method not translated")
    want = {'__init__', '_setmod', '_event_inc', '_event_dec', '_event_put', '_event_reset', 'init_from_value',
            '_restore_state'}
    if seen != want:
        raise TranslationError(f"members of Counter: expected {sorted(want)}, found {sorted(seen)}")
    # g_setmod must be defined before its users: order the definitions
    first = [d for d in out if 'g_setmod (m' in d or d.startswith('(* _setmod')]
    rest = [d for d in out if d not in first]
    header = ("(* GENERATED by tools/gen_counter.py from edzed/blocklib/sblocks1.py (class Counter) - do not edit.\n"
              "   Regenerated on every run of the C20 check and of setup.sh. *)\n"
              "From Verif Require Import Values Counter.\nOpen Scope Q_scope.\n")
    return header + '\n'.join(first + rest) + '\n'


def main():
    repo = Path(sys.argv[1] if len(sys.argv) > 1 else '/repo')
    dest = Path(sys.argv[2] if len(sys.argv) > 2 else Path(__file__).resolve().parent.parent / 'coq/Gen/GenCounter.v')
    try:
        text = translate((repo / 'edzed/blocklib/sblocks1.py').read_text())
    except TranslationError as err:
        print(f"TRANSLATION FAILED: {err}")
        return 3
    dest.parent.mkdir(exist_ok=True)
    if not dest.exists() or dest.read_text() != text:
        dest.write_text(text)
    print(f"generated {dest}")
    return 0


if __name__ == '__main__':
    sys.exit(main())
