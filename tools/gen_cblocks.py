#!/usr/bin/env python3
"""Translator: edzed/blocklib/cblocks.py (Not, And, Or, Xor, Compare, Override) -> coq/Gen/GenCBlocks.v

Regenerates, from the source, Gallina renderings of the output functions of the bundled
combinational blocks; coq/Gen/GenCBlocksProofs.v proves them equal to the hand-written apply_fun of
coq/Model/Sim.v, about which the C01 theorems are stated.  Fail-closed: only the statement and
expression shapes matched below are accepted, everything else raises TranslationError.
FuncBlock itself (the generic wrapper around a user function) is not translated: its dispatch
(positional group, unpack) is covered by the correspondence check with the harness' reference
function.

Typed mini-translation:
  val expressions   : self._in['_'][0] -> in0 ; self._in.NAME -> NAME ; local names ;
                      not V -> VBool (negb (truthy V)) ; bool(I) -> VBool (negb (I =? 0)) ;
                      A if V == self._null else B -> if py_eq V null then A else B ;
                      N >= Q -> VBool (Qle_bool Q N) with N the numeric input
  int expressions   : sum(1 for v in X if v) -> Z.of_nat (length (filter truthy X)) ; I % c
  number expressions: self._low, self._high, local names, A + B, A / c,
                      A if self._output else B -> if truthy own then A else B
"""
from __future__ import annotations

import ast
import sys
from pathlib import Path


class TranslationError(Exception):
    pass


def fail(node, what):
    line = getattr(node, 'lineno', '?')
    raise TranslationError(f"cblocks.py:{line}: {what}: "
                           f"{ast.dump(node)[:200] if isinstance(node, ast.AST) else node}")


def self_attr(node, attr=None):
    ok = isinstance(node, ast.Attribute) and isinstance(node.value, ast.Name) and node.value.id == 'self'
    return ok and (attr is None or node.attr == attr)


def is_in_group0(node):
    """self._in['_'][0]"""
    return (isinstance(node, ast.Subscript) and isinstance(node.slice, ast.Constant) and node.slice.value == 0
            and isinstance(node.value, ast.Subscript) and self_attr(node.value.value, '_in')
            and isinstance(node.value.slice, ast.Constant) and node.value.slice.value == '_')


def in_attr(node):
    """self._in.NAME -> NAME"""
    if isinstance(node, ast.Attribute) and self_attr(node.value, '_in'):
        return node.attr
    return None


def body_of(fn):
    return [s for s in fn.body if not (isinstance(s, ast.Expr) and isinstance(s.value, ast.Constant))]


def int_expr(node, env):
    if isinstance(node, ast.BinOp) and isinstance(node.op, ast.Mod) and isinstance(node.right, ast.Constant) \
            and isinstance(node.right.value, int) and not isinstance(node.right.value, bool) and node.right.value > 0:
        return f"(({int_expr(node.left, env)}) mod {node.right.value})%Z"
    if (isinstance(node, ast.Call) and isinstance(node.func, ast.Name) and node.func.id == 'sum'
            and len(node.args) == 1 and not node.keywords and isinstance(node.args[0], ast.GeneratorExp)):
        g = node.args[0]
        if not (isinstance(g.elt, ast.Constant) and g.elt.value == 1 and not isinstance(g.elt.value, bool)
                and len(g.generators) == 1):
            fail(node, "only sum(1 for v in X if v)")
        c = g.generators[0]
        if not (isinstance(c.target, ast.Name) and isinstance(c.iter, ast.Name) and c.iter.id in env
                and env[c.iter.id][1] == 'vals' and len(c.ifs) == 1 and isinstance(c.ifs[0], ast.Name)
                and c.ifs[0].id == c.target.id and not c.is_async):
            fail(node, "only sum(1 for v in X if v)")
        return f"(Z.of_nat (List.length (filter truthy {env[c.iter.id][0]})))"
    fail(node, "integer expression not translated")


def num_expr(node, env):
    if self_attr(node, '_low'):
        return 'low'
    if self_attr(node, '_high'):
        return 'high'
    if isinstance(node, ast.Name) and node.id in env and env[node.id][1] == 'num':
        return env[node.id][0]
    if isinstance(node, ast.BinOp) and isinstance(node.op, ast.Add):
        return f"({num_expr(node.left, env)} + {num_expr(node.right, env)})"
    if isinstance(node, ast.BinOp) and isinstance(node.op, ast.Div) and isinstance(node.right, ast.Constant) \
            and isinstance(node.right.value, int) and not isinstance(node.right.value, bool) and node.right.value != 0:
        return f"({num_expr(node.left, env)} / inject_Z {node.right.value})"
    if isinstance(node, ast.IfExp) and self_attr(node.test, '_output'):
        return f"(if truthy own then {num_expr(node.body, env)} else {num_expr(node.orelse, env)})"
    fail(node, "numeric expression not translated")


def val_expr(node, env):
    if is_in_group0(node):
        return 'in0'
    n = in_attr(node)
    if n is not None:
        if n not in env or env[n][1] != 'val':
            fail(node, "unknown input")
        return env[n][0]
    if isinstance(node, ast.Name) and node.id in env and env[node.id][1] == 'val':
        return env[node.id][0]
    if isinstance(node, ast.UnaryOp) and isinstance(node.op, ast.Not):
        return f"(VBool (negb (truthy {val_expr(node.operand, env)})))"
    if isinstance(node, ast.Call) and isinstance(node.func, ast.Name) and node.func.id == 'bool' \
            and len(node.args) == 1 and not node.keywords:
        return f"(VBool (negb ({int_expr(node.args[0], env)} =? 0)%Z))"
    if isinstance(node, ast.IfExp):
        t = node.test
        if not (isinstance(t, ast.Compare) and len(t.ops) == 1 and isinstance(t.ops[0], ast.Eq)
                and self_attr(t.comparators[0], '_null')):
            fail(node, "only 'A if V == self._null else B'")
        return (f"(if py_eq {val_expr(t.left, env)} null then {val_expr(node.body, env)} "
                f"else {val_expr(node.orelse, env)})")
    if isinstance(node, ast.Compare) and len(node.ops) == 1 and isinstance(node.ops[0], ast.GtE) \
            and is_in_group0(node.left):
        return f"(VBool (Qle_bool {num_expr(node.comparators[0], env)} in0q))"
    fail(node, "value expression not translated")


def signature(fn):
    """start(): super().start(); self.check_signature({...}) -> Gallina list"""
    b = body_of(fn)
    if len(b) != 2:
        fail(fn, "unexpected start()")
    c0 = b[0].value if isinstance(b[0], ast.Expr) else None
    if not (isinstance(c0, ast.Call) and isinstance(c0.func, ast.Attribute) and c0.func.attr == 'start'
            and isinstance(c0.func.value, ast.Call) and isinstance(c0.func.value.func, ast.Name)
            and c0.func.value.func.id == 'super'):
        fail(b[0], "expected super().start()")
    c1 = b[1].value if isinstance(b[1], ast.Expr) else None
    if not (isinstance(c1, ast.Call) and self_attr(c1.func, 'check_signature') and len(c1.args) == 1
            and isinstance(c1.args[0], ast.Dict)):
        fail(b[1], "expected self.check_signature({...})")
    items = []
    for k, v in zip(c1.args[0].keys, c1.args[0].values):
        if not (isinstance(k, ast.Constant) and isinstance(k.value, str) and isinstance(v, ast.Constant)
                and (v.value is None or (isinstance(v.value, int) and not isinstance(v.value, bool)))):
            fail(c1, "signature items must be 'name': None|int")
        items.append(f'("{k.value}", {"None" if v.value is None else f"Some {v.value}%nat"})')
    return '[' + '; '.join(items) + ']'


def methods(cls):
    out = {}
    for item in cls.body:
        if isinstance(item, ast.Expr) and isinstance(item.value, ast.Constant):
            continue
        if isinstance(item, ast.FunctionDef) and not item.decorator_list:
            out[item.name] = item
        else:
            fail(item, f"member of {cls.name} not translated")
    return out


def super_init_kwargs(fn):
    """__init__(self, *args, **kwargs): super().__init__(*args, K=V..., **kwargs) -> {K: V node}"""
    a = fn.args
    if [x.arg for x in a.args] != ['self'] or a.vararg is None or a.kwarg is None or a.kwonlyargs or a.defaults:
        fail(fn, "unexpected __init__ signature")
    b = body_of(fn)
    c = b[0].value if len(b) == 1 and isinstance(b[0], ast.Expr) else None
    if not (isinstance(c, ast.Call) and isinstance(c.func, ast.Attribute) and c.func.attr == '__init__'
            and isinstance(c.func.value, ast.Call) and isinstance(c.func.value.func, ast.Name)
            and c.func.value.func.id == 'super'):
        fail(fn, "expected a single super().__init__(...)")
    return {k.arg: k.value for k in c.keywords if k.arg is not None}


def translate(src: str) -> str:
    tree = ast.parse(src)
    classes = {n.name: n for n in tree.body if isinstance(n, ast.ClassDef)}
    for need in ('Not', 'FuncBlock', 'And', 'Or', 'Xor', 'Compare', 'Override'):
        if need not in classes:
            raise TranslationError(f"class {need} not found")
    out = []
    # ---- Not
    m = methods(classes['Not'])
    if set(m) != {'calc_output', 'start'}:
        fail(classes['Not'], "members of Not")
    b = body_of(m['calc_output'])
    if not (len(b) == 1 and isinstance(b[0], ast.Return)):
        fail(m['calc_output'], "Not.calc_output")
    out.append(f"Definition g_Not_signature : list (string * option nat) := {signature(m['start'])}.")
    out.append(f"Definition g_Not_calc (in0 : val) : val := {val_expr(b[0].value, {})}.")
    # ---- And / Or / Xor: FuncBlock subclasses configured in __init__
    for name in ('And', 'Or', 'Xor'):
        cls = classes[name]
        if [getattr(x, 'id', None) for x in cls.bases] != ['FuncBlock']:
            fail(cls, f"{name} must derive from FuncBlock")
        m = methods(cls)
        if set(m) != {'__init__'}:
            fail(cls, f"members of {name}")
        kw = super_init_kwargs(m['__init__'])
        if set(kw) != {'func', 'unpack'}:
            fail(cls, f"{name}: expected func= and unpack=")
        if not (isinstance(kw['unpack'], ast.Constant) and isinstance(kw['unpack'].value, bool)):
            fail(kw['unpack'], "unpack must be a bool constant")
        out.append(f"Definition g_{name}_unpack : bool := {'true' if kw['unpack'].value else 'false'}.")
        f = kw['func']
        if isinstance(f, ast.Name) and f.id == 'all':
            body = "VBool (forallb truthy inputs)"
        elif isinstance(f, ast.Name) and f.id == 'any':
            body = "VBool (existsb truthy inputs)"
        elif isinstance(f, ast.Lambda):
            la = f.args
            if len(la.args) != 1 or la.vararg or la.kwarg or la.kwonlyargs or la.defaults:
                fail(f, "lambda with exactly one parameter expected")
            body = val_expr(f.body, {la.args[0].arg: ('inputs', 'vals')})
        else:
            fail(f, "func must be all, any or a lambda")
        out.append(f"Definition g_{name}_func (inputs : list val) : val := {body}.")
    # ---- Compare
    m = methods(classes['Compare'])
    if set(m) != {'__init__', 'calc_output', 'start'}:
        fail(classes['Compare'], "members of Compare")
    ini = m['__init__']
    a = ini.args
    if ([x.arg for x in a.args] != ['self'] or [k.arg for k in a.kwonlyargs] != ['low', 'high']
            or any(d is not None for d in a.kw_defaults) or a.vararg is None or a.kwarg is None):
        fail(ini, "Compare.__init__ signature")
    b = body_of(ini)
    if len(b) != 4:
        fail(ini, "Compare.__init__ body")
    t = b[0]
    if not (isinstance(t, ast.If) and not t.orelse and len(t.body) == 1 and isinstance(t.body[0], ast.Raise)
            and isinstance(t.test, ast.Compare) and len(t.test.ops) == 1 and isinstance(t.test.ops[0], ast.Lt)
            and isinstance(t.test.left, ast.Name) and isinstance(t.test.comparators[0], ast.Name)
            and {t.test.left.id, t.test.comparators[0].id} == {'low', 'high'}):
        fail(t, "expected 'if high < low: raise ...'")
    out.append(f"Definition g_Compare_create_refuses (low high : Q) : bool := "
               f"negb (Qle_bool {t.test.comparators[0].id} {t.test.left.id}).")
    for st, (attr, val) in zip(b[1:3], (('_low', 'low'), ('_high', 'high'))):
        if not (isinstance(st, ast.Assign) and len(st.targets) == 1 and self_attr(st.targets[0], attr)
                and isinstance(st.value, ast.Name) and st.value.id == val):
            fail(st, f"expected self.{attr} = {val}")
    co = body_of(m['calc_output'])
    if not (len(co) == 2 and isinstance(co[0], ast.If) and isinstance(co[1], ast.Return)):
        fail(m['calc_output'], "Compare.calc_output")
    cond = co[0].test
    if not (isinstance(cond, ast.Compare) and self_attr(cond.left, '_output') and len(cond.ops) == 1
            and isinstance(cond.ops[0], ast.Is) and isinstance(cond.comparators[0], ast.Attribute)
            and cond.comparators[0].attr == 'UNDEF'):
        fail(cond, "expected 'if self._output is block.UNDEF'")

    def single_assign(stmts):
        if not (len(stmts) == 1 and isinstance(stmts[0], ast.Assign) and len(stmts[0].targets) == 1
                and isinstance(stmts[0].targets[0], ast.Name)):
            fail(stmts[0] if stmts else co[0], "expected a single assignment")
        return stmts[0].targets[0].id, stmts[0].value
    v1, e1 = single_assign(co[0].body)
    v2, e2 = single_assign(co[0].orelse)
    if v1 != v2:
        fail(co[0], "both branches must assign the same variable")
    out.append(f"Definition g_Compare_signature : list (string * option nat) := {signature(m['start'])}.")
    out.append(f"Definition g_Compare_thr (low high : Q) (own : val) : Q :=\n"
               f"  match own with VUndef => {num_expr(e1, {})} | _ => {num_expr(e2, {})} end.")
    ret = val_expr(co[1].value, {v1: (f'(g_Compare_thr low high own)', 'num')})
    out.append(f"Definition g_Compare_calc (low high : Q) (own : val) (in0q : Q) : val := {ret}.")
    # ---- Override
    m = methods(classes['Override'])
    if set(m) != {'__init__', 'calc_output', 'start'}:
        fail(classes['Override'], "members of Override")
    ini = m['__init__']
    a = ini.args
    if ([k.arg for k in a.kwonlyargs] != ['null_value'] or not isinstance(a.kw_defaults[0], ast.Constant)
            or a.kw_defaults[0].value is not None):
        fail(ini, "Override.__init__ signature")
    b = body_of(ini)
    if not (len(b) == 2 and isinstance(b[0], ast.Assign) and self_attr(b[0].targets[0], '_null')
            and isinstance(b[0].value, ast.Name) and b[0].value.id == 'null_value'):
        fail(ini, "expected self._null = null_value")
    co = body_of(m['calc_output'])
    env = {'input': ('input', 'val'), 'override': ('override', 'val')}
    if len(co) == 2 and isinstance(co[0], ast.Assign) and isinstance(co[0].targets[0], ast.Name):
        env[co[0].targets[0].id] = (val_expr(co[0].value, env), 'val')
        co = co[1:]
    if not (len(co) == 1 and isinstance(co[0], ast.Return)):
        fail(m['calc_output'], "Override.calc_output")
    out.append(f"Definition g_Override_signature : list (string * option nat) := {signature(m['start'])}.")
    out.append("Definition g_Override_default_null : val := VNone.")
    out.append(f"Definition g_Override_calc (null input override : val) : val := {val_expr(co[0].value, env)}.")
    header = ("(* GENERATED by tools/gen_cblocks.py from edzed/blocklib/cblocks.py - do not edit.\n"
              "   Regenerated on every run of the C01 check. *)\n"
              "From Verif Require Import Values Sim.\nOpen Scope Q_scope.\n")
    return header + '\n'.join(out) + '\n'


def main():
    repo = Path(sys.argv[1] if len(sys.argv) > 1 else '/repo')
    dest = Path(sys.argv[2] if len(sys.argv) > 2
                else Path(__file__).resolve().parent.parent / 'coq/Gen/GenCBlocks.v')
    try:
        text = translate((repo / 'edzed/blocklib/cblocks.py').read_text())
    except TranslationError as err:
        print(f"TRANSLATION FAILED: {err}")
        return 3
    dest.parent.mkdir(exist_ok=True)
    if not dest.exists() or dest.read_text() != text:
        dest.write_text(text)
    print(f"generated {dest}")
    return 0


if __name__ == '__main__':
    sys.exit(main())
