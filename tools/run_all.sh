#!/bin/sh
# tools/run_all.sh [seed ...] : run every check's quick tier for each seed (4 properties in
# parallel) and print one line per run; exit 1 if any run did not pass
cd /verif
seeds="${*:-default}"
rm -f /tmp/runall_*.txt
for s in $seeds; do
  for p in C01 C02 C03 C04 C05 C06 C07 C08 C09 C10 C11 C12 C13 C14 C15 C16 C17 C18 C19 C20; do
    echo "$p $s"
  done
done | xargs -P 4 -L 1 sh -c 'p=$0; s=$1; if [ "$s" = default ]; then o=$(./check $p 2>&1 | tail -1); else o=$(VERIF_SEED=$s ./check $p 2>&1 | tail -1); fi; echo "$o" > /tmp/runall_${p}_$s.txt'
bad=0
for f in /tmp/runall_*.txt; do
  if grep -q "violations=0 known=" $f; then :; else bad=1; echo "NOT CLEAN: $f: $(cat $f)"; fi
done
echo "runs: $(ls /tmp/runall_*.txt | wc -l) bad=$bad"
rm -f /tmp/runall_*.txt
exit $bad
