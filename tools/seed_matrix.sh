#!/bin/sh
# tools/seed_matrix.sh : apply every seeded change in turn, run the quick check of its property,
# and write seeded/MATRIX.md (which check catches which change)
cd /verif
out=seeded/MATRIX.md
echo "| seed | property check | exit | VIOLATION lines | of which no-failing-input-found | clauses |" > $out
echo "|---|---|---|---|---|---|" >> $out
for d in seeded/C*/; do
  id=$(basename $d); prop=$(echo $id | cut -c1-3)
  res=$(tools/try_seed.sh $id quick $prop 2>&1)
  ex=$(echo "$res" | grep -o "exit=[0-9]*" | tail -1)
  nv=$(echo "$res" | grep -c "^VIOLATION")
  nn=$(echo "$res" | grep -c "no-failing-input-found")
  cl=$(for f in $(echo "$res" | grep "^VIOLATION" | sed 's/.*replay=\([^ ]*\).*/\1/'); do python3 -c "import json,sys; print(json.load(open('/verif/$f')).get('clause',''))" 2>/dev/null; done | sort -u | tr '\n' ' ')
  echo "| $id | $prop | $ex | $nv | $nn | $cl |" >> $out
done
git -C /repo status --short | head -3
