#!/bin/sh
# tools/try_seed.sh C20a [tier] : apply seeded/<id>/patch.diff to /repo, run the property's check, undo.
id="$1"; tier="${2:-quick}"; prop=$(echo "$id" | cut -c1-3)
[ -n "${3:-}" ] && prop="$3"
cd /verif || exit 2
git -C /repo diff --quiet || { echo "/repo not clean"; exit 2; }
git -C /repo apply /verif/seeded/$id/patch.diff 2>/dev/null || (cd /repo && patch -p1 -F3 -s --no-backup-if-mismatch < /verif/seeded/$id/patch.diff) || { git -C /repo checkout -- .; git -C /repo clean -fdq -- edzed; echo "patch does not apply"; exit 2; }
cp evidence/$prop.json /tmp/mut/ev_$prop.json 2>/dev/null
./check $prop --tier $tier > /tmp/mut/try_$id.log 2>&1; rc=$?
cp /tmp/mut/ev_$prop.json evidence/$prop.json 2>/dev/null
git -C /repo checkout -- .; git -C /repo clean -fdq -- edzed
grep -E "^(VIOLATION|KNOWN|BROKEN|\[C)" /tmp/mut/try_$id.log; echo "exit=$rc"
