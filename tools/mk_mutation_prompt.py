#!/usr/bin/env python3
"""Prints the prompt given to an independent sub-agent that seeds a property-breaking change."""
import json, sys
pid, variant = sys.argv[1], (sys.argv[2] if len(sys.argv) > 2 else 'a')
for l in open('/verif/properties.jsonl'):
    p = json.loads(l)
    if p['id'] == pid:
        break
wt = f"/tmp/mut/{pid}{variant}"
print(f"""You are helping to evaluate a verification framework for the Python library xitop/edzed (an asyncio library for small automation systems: event-driven zero-delay circuit simulator with combinational/sequential blocks, timed FSMs, cron scheduling, persistent state).

Your own scratch git worktree of the repository is at {wt} (already created; work ONLY there; do NOT read or touch /verif or /repo). Python: /venv/bin/python. Run the test suite from the worktree with:
  cd {wt} && PYTHONPATH={wt} /venv/bin/python -m pytest -q -p no:cacheprovider -n 8 tests
(make sure PYTHONPATH points to your worktree so that your modified edzed is the one imported; verify with python -c 'import edzed; print(edzed.__file__)').

Here is a semantic property that edzed is supposed to satisfy:

TITLE: {p['title']}
STATEMENT: {p['statement']}
QUANTIFIED OVER: {p['quantifier']['text']}
WHY THE EXISTING TESTS CANNOT SETTLE IT: {p['why_tests_cant']}
RELEVANT FILES: {', '.join(p['anchors']['files'])}

TASK: produce ONE realistic change (a plausible regression/bug a developer could introduce: a refactoring slip, an off-by-one, a wrong condition, a dropped/reordered statement, a missed cleanup) to the edzed source in your worktree that BREAKS this property, while (1) the package still imports, and (2) the complete existing test suite still passes unchanged (do not edit tests). The change must need something specific to manifest - a particular interleaving or timing, a crash or fault at a particular point, a multi-step sequence of operations, an unusual input, or two cooperating sites that each look fine alone - NOT something that ordinary use would expose at once. Keep the diff small (typically 1-10 lines). Variant hint: '{variant}' - if the hint is 'b' or 'c', pick a different mechanism/site of the property than the most obvious one (e.g. a different clause of the statement).

Also write a demonstration: a small standalone pytest file demo_test.py (it may use asyncio / pytest-asyncio as the repo's tests do, look at tests/utils.py and tests/conftest.py for conventions; it must be runnable as  cd {wt} && PYTHONPATH={wt} /venv/bin/python -m pytest -q -p no:cacheprovider {wt}_out/demo_test.py ) that FAILS with your change applied and PASSES on the unmodified code (check both with `git diff > /tmp/x.diff; git apply -R /tmp/x.diff; ...; git apply /tmp/x.diff` in your worktree; NEVER use `git stash`: the stash is shared with other worktrees that other people are using concurrently). Keep real-time waits short (under ~3 s total).

Deliverables, written to the directory {wt}_out/ (create it):
  - patch.diff   : output of `git diff` in the worktree (the change only, no new files)
  - demo_test.py : the demonstration
  - meta.json    : {{"property": "{pid}", "summary": "<what was changed>", "needs": "<what specific circumstances it needs to manifest>", "clause": "<which part of the statement breaks>", "ran": ["<commands you ran and their outcomes>"]}}
Leave the worktree with the change applied. Do not commit. Report briefly (5 lines max) what you changed and confirm: full suite passes with the change; demo fails with the change and passes without.""")
