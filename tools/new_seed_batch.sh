#!/bin/sh
# tools/new_seed_batch.sh C01e C02e ... : scratch worktrees + prompts + lists of already used changes
mkdir -p /tmp/mut
for id in "$@"; do
  prop=$(echo $id | cut -c1-3); var=$(echo $id | cut -c4)
  git -C /repo worktree add --detach /tmp/mut/$id HEAD -f >/dev/null 2>&1 || { echo "worktree failed for $id"; continue; }
  python3 /verif/tools/mk_mutation_prompt.py $prop $var > /tmp/mut/prompt_$id.txt
  python3 - "$prop" <<'P'
import json,glob,sys
pid=sys.argv[1]
used=[]
for d in sorted(glob.glob(f'/verif/seeded/{pid}?')):
    m=json.load(open(d+'/meta.json'))
    used.append(m.get('summary','')[:300].replace('\n',' '))
open(f'/tmp/mut/used_{pid}.txt','w').write('\n'.join('- '+u for u in used))
P
  echo -n "$id "
done
echo
