#!/usr/bin/env python3
"""Translator: edzed/blocklib/filters.py (not_from_undef, Edge, Delta, IfOutput, NotIfInitialized)
-> coq/Gen/GenFilters.v

Regenerates Gallina renderings of the bundled predicate filters from the source;
coq/Gen/GenFiltersProofs.v proves them equal to the hand-written definitions of coq/Model/Filters.v
(C16).  Fail-closed: only the shapes matched below are accepted.  DataEdit (closures over an edit
list) is not translated; it is covered by its extensional theorems and the correspondence runs.

Boolean mini-language (bexpr) inside Edge.__call__:
   True/False ; self._rise/_fall/_urise/_ufall ; value, previous (truth value of the data items;
   'previous = bool(previous)' is accepted in front) ; not B ; A and B ; A or B ; X if C else Y
"""
from __future__ import annotations

import ast
import sys
from pathlib import Path


class TranslationError(Exception):
    pass


def fail(node, what):
    line = getattr(node, 'lineno', '?')
    raise TranslationError(f"filters.py:{line}: {what}: "
                           f"{ast.dump(node)[:200] if isinstance(node, ast.AST) else node}")


def self_attr(node, attr=None):
    ok = isinstance(node, ast.Attribute) and isinstance(node.value, ast.Name) and node.value.id == 'self'
    return ok and (attr is None or node.attr == attr)


def body_of(fn):
    return [s for s in fn.body if not (isinstance(s, ast.Expr) and isinstance(s.value, ast.Constant))]


def is_undef(node):
    return isinstance(node, ast.Attribute) and node.attr == 'UNDEF' and isinstance(node.value, ast.Name) \
        and node.value.id == 'block'


def data_item(node, key):
    """data['key']"""
    return (isinstance(node, ast.Subscript) and isinstance(node.value, ast.Name) and node.value.id == 'data'
            and isinstance(node.slice, ast.Constant) and node.slice.value == key)


FLAGS = {'_rise': 'rise', '_fall': 'fall', '_urise': 'urise', '_ufall': 'ufall'}


def bexpr(node, vals):
    """vals: python local name -> Gallina boolean term for its truth value"""
    if isinstance(node, ast.Constant) and isinstance(node.value, bool):
        return 'true' if node.value else 'false'
    if isinstance(node, ast.Name) and node.id in vals:
        return vals[node.id]
    if isinstance(node, ast.Attribute) and self_attr(node) and node.attr in FLAGS:
        return FLAGS[node.attr]
    if isinstance(node, ast.UnaryOp) and isinstance(node.op, ast.Not):
        return f"(negb {bexpr(node.operand, vals)})"
    if isinstance(node, ast.BoolOp):
        op = ' && ' if isinstance(node.op, ast.And) else ' || '
        return '(' + op.join(bexpr(v, vals) for v in node.values) + ')'
    if isinstance(node, ast.IfExp):
        return f"(if {bexpr(node.test, vals)} then {bexpr(node.body, vals)} else {bexpr(node.orelse, vals)})"
    fail(node, "boolean expression not translated")


def returns_true_if(stmt, vals):
    """'if B: return True' -> B"""
    if not (isinstance(stmt, ast.If) and not stmt.orelse and len(stmt.body) == 1
            and isinstance(stmt.body[0], ast.Return) and isinstance(stmt.body[0].value, ast.Constant)
            and stmt.body[0].value.value is True):
        fail(stmt, "expected 'if B: return True'")
    return bexpr(stmt.test, vals)


def methods(cls):
    out = {}
    for item in cls.body:
        if isinstance(item, ast.Expr) and isinstance(item.value, ast.Constant):
            continue
        if isinstance(item, ast.FunctionDef) and not item.decorator_list:
            out[item.name] = item
        else:
            fail(item, f"member of {cls.name} not translated")
    return out


def translate(src: str) -> str:
    tree = ast.parse(src)
    top = {n.name: n for n in tree.body if isinstance(n, (ast.ClassDef, ast.FunctionDef))}
    for need in ('not_from_undef', 'Edge', 'Delta', 'IfOutput', 'NotIfInitialized'):
        if need not in top:
            raise TranslationError(f"{need} not found")
    out = []
    # ---- not_from_undef
    fn = top['not_from_undef']
    b = body_of(fn)
    r = b[0].value if len(b) == 1 and isinstance(b[0], ast.Return) else None
    if not (isinstance(r, ast.Compare) and len(r.ops) == 1 and isinstance(r.ops[0], ast.IsNot)
            and is_undef(r.comparators[0]) and isinstance(r.left, ast.Call)
            and isinstance(r.left.func, ast.Attribute) and r.left.func.attr == 'get'
            and isinstance(r.left.func.value, ast.Name) and r.left.func.value.id == 'data'
            and len(r.left.args) == 2 and isinstance(r.left.args[0], ast.Constant)
            and isinstance(r.left.args[0].value, str) and is_undef(r.left.args[1])):
        fail(fn, "expected \"return data.get(KEY, block.UNDEF) is not block.UNDEF\"")
    out.append(f"Definition g_not_from_undef (d : data) : fres :=\n"
               f"  match dget d \"{r.left.args[0].value}\" with Some VUndef | None => FReject | Some _ => FPass end.")
    # ---- Edge
    m = methods(top['Edge'])
    if set(m) != {'__init__', '__call__'}:
        fail(top['Edge'], "members of Edge")
    ini = m['__init__']
    a = ini.args
    if [x.arg for x in a.args] != ['self', 'rise', 'fall', 'u_rise', 'u_fall'] or a.vararg or a.kwarg or a.kwonlyargs:
        fail(ini, "Edge.__init__ signature")
    dflt = [d.value if isinstance(d, ast.Constant) else fail(d, "default") for d in a.defaults]
    if dflt != [False, False, None, False]:
        fail(ini, "Edge.__init__ defaults must be (False, False, None, False)")
    assigns = {}
    for st in body_of(ini):
        if isinstance(st, ast.Assign) and len(st.targets) == 1 and self_attr(st.targets[0]):
            assigns[st.targets[0].attr] = st.value
        elif isinstance(st, ast.If):
            continue                      # the "all events will be filtered out" warning
        else:
            fail(st, "statement of Edge.__init__ not translated")
    if set(assigns) != set(FLAGS):
        fail(ini, "Edge.__init__ must set _rise, _fall, _urise, _ufall")

    def bool_of(node, name):
        return (isinstance(node, ast.Call) and isinstance(node.func, ast.Name) and node.func.id == 'bool'
                and len(node.args) == 1 and isinstance(node.args[0], ast.Name) and node.args[0].id == name)
    for attr, arg in (('_rise', 'rise'), ('_fall', 'fall'), ('_ufall', 'u_fall')):
        if not bool_of(assigns[attr], arg):
            fail(assigns[attr], f"expected self.{attr} = bool({arg})")
    u = assigns['_urise']
    if not (isinstance(u, ast.IfExp) and bool_of(u.body, 'u_rise') and isinstance(u.test, ast.Compare)
            and isinstance(u.test.left, ast.Name) and u.test.left.id == 'u_rise' and len(u.test.ops) == 1
            and isinstance(u.test.ops[0], ast.IsNot) and isinstance(u.test.comparators[0], ast.Constant)
            and u.test.comparators[0].value is None and self_attr(u.orelse) and u.orelse.attr in FLAGS):
        fail(u, "expected self._urise = bool(u_rise) if u_rise is not None else self._FLAG")
    out.append(f"Definition g_edge_eff_urise (rise fall ufall : bool) (u_rise : option bool) : bool :=\n"
               f"  match u_rise with Some b => b | None => {FLAGS[u.orelse.attr]} end.")
    call = body_of(m['__call__'])
    if len(call) != 4:
        fail(m['__call__'], "Edge.__call__ body")
    for st, (var, key) in zip(call[:2], (('value', 'value'), ('previous', 'previous'))):
        if not (isinstance(st, ast.Assign) and isinstance(st.targets[0], ast.Name) and st.targets[0].id == var
                and data_item(st.value, key)):
            fail(st, f"expected {var} = data['{key}']")
    br = call[2]
    if not (isinstance(br, ast.If) and isinstance(br.test, ast.Compare) and isinstance(br.test.left, ast.Name)
            and br.test.left.id == 'previous' and len(br.test.ops) == 1 and isinstance(br.test.ops[0], ast.Is)
            and is_undef(br.test.comparators[0])):
        fail(br, "expected 'if previous is block.UNDEF'")
    if len(br.body) != 1:
        fail(br, "UNDEF branch")
    from_undef = returns_true_if(br.body[0], {'value': '(truthy value)'})
    other = list(br.orelse)
    if other and isinstance(other[0], ast.Assign) and isinstance(other[0].targets[0], ast.Name) \
            and other[0].targets[0].id == 'previous' and bool_of(other[0].value, 'previous'):
        other = other[1:]
    if len(other) != 1:
        fail(br, "non-UNDEF branch")
    from_val = returns_true_if(other[0], {'value': '(truthy value)', 'previous': '(truthy previous)'})
    if not (isinstance(call[3], ast.Return) and isinstance(call[3].value, ast.Constant)
            and call[3].value.value is False):
        fail(call[3], "expected a final 'return False'")
    out.append("Definition g_edge_pass (rise fall urise ufall : bool) (previous value : val) : bool :=\n"
               f"  match previous with VUndef => {from_undef} | _ => {from_val} end.")
    # ---- Delta
    m = methods(top['Delta'])
    if set(m) != {'__init__', '__call__'}:
        fail(top['Delta'], "members of Delta")
    ini = body_of(m['__init__'])
    if not (len(ini) == 2 and all(isinstance(s, ast.Assign) for s in ini)
            and self_attr(ini[0].targets[0], '_delta') and isinstance(ini[0].value, ast.Name)
            and ini[0].value.id == 'delta' and self_attr(ini[1].targets[0], '_last') and is_undef(ini[1].value)):
        fail(m['__init__'], "Delta.__init__")
    call = body_of(m['__call__'])
    if not (len(call) == 3 and isinstance(call[0], ast.Assign) and data_item(call[0].value, 'value')
            and isinstance(call[0].targets[0], ast.Name) and call[0].targets[0].id == 'value'):
        fail(m['__call__'], "Delta.__call__")
    cond = call[1]
    if not (isinstance(cond, ast.If) and not cond.orelse and isinstance(cond.test, ast.BoolOp)
            and isinstance(cond.test.op, ast.Or) and len(cond.test.values) == 2):
        fail(cond, "expected 'if self._last is block.UNDEF or abs(..) >= self._delta'")
    c0, c1 = cond.test.values
    if not (isinstance(c0, ast.Compare) and self_attr(c0.left, '_last') and isinstance(c0.ops[0], ast.Is)
            and is_undef(c0.comparators[0])):
        fail(c0, "expected 'self._last is block.UNDEF'")
    if not (isinstance(c1, ast.Compare) and len(c1.ops) == 1 and isinstance(c1.ops[0], ast.GtE)
            and self_attr(c1.comparators[0], '_delta') and isinstance(c1.left, ast.Call)
            and isinstance(c1.left.func, ast.Name) and c1.left.func.id == 'abs' and len(c1.left.args) == 1
            and isinstance(c1.left.args[0], ast.BinOp) and isinstance(c1.left.args[0].op, ast.Sub)):
        fail(c1, "expected 'abs(A - B) >= self._delta'")

    def operand(n):
        if self_attr(n, '_last'):
            return 'l'
        if isinstance(n, ast.Name) and n.id == 'value':
            return 'v'
        fail(n, "operand of the difference")
    diff = f"({operand(c1.left.args[0].left)} - {operand(c1.left.args[0].right)})"
    bb = cond.body
    if not (len(bb) == 2 and isinstance(bb[0], ast.Assign) and self_attr(bb[0].targets[0], '_last')
            and isinstance(bb[0].value, ast.Name) and bb[0].value.id == 'value'
            and isinstance(bb[1], ast.Return) and isinstance(bb[1].value, ast.Constant) and bb[1].value.value is True):
        fail(cond, "expected 'self._last = value; return True'")
    if not (isinstance(call[2], ast.Return) and isinstance(call[2].value, ast.Constant)
            and call[2].value.value is False):
        fail(call[2], "expected a final 'return False'")
    out.append("Definition g_delta_step (delta : Q) (last : option Q) (v : Q) : bool * option Q :=\n"
               f"  match last with\n  | None => (true, Some v)\n"
               f"  | Some l => if Qle_bool delta (Qabs {diff}) then (true, Some v) else (false, last)\n  end.")
    # ---- IfOutput / NotIfInitialized
    m = methods(top['IfOutput'])
    call = body_of(m['__call__'])
    r = call[-1].value if call and isinstance(call[-1], ast.Return) else None
    if not (len(call) in (1, 2) and isinstance(r, ast.IfExp) and isinstance(r.body, ast.Name) and r.body.id == 'data'
            and isinstance(r.orelse, ast.Constant) and r.orelse.value is None
            and isinstance(r.test, ast.Attribute) and r.test.attr == 'output' and self_attr(r.test.value, '_ctrl_blk')):
        fail(m['__call__'], "expected 'return data if self._ctrl_blk.output else None'")
    if len(call) == 2 and not isinstance(call[0], ast.Assert):
        fail(call[0], "only an assert may precede the return")
    out.append("Definition g_if_output (ctrl_out : val) (d : data) : fres :=\n"
               "  if truthy ctrl_out then FReplace d else FReject.")
    m = methods(top['NotIfInitialized'])
    call = body_of(m['__call__'])
    r = call[-1].value if call and isinstance(call[-1], ast.Return) else None
    if not (len(call) in (1, 2) and isinstance(r, ast.IfExp) and isinstance(r.orelse, ast.Name) and r.orelse.id == 'data'
            and isinstance(r.body, ast.Constant) and r.body.value is None and isinstance(r.test, ast.Call)
            and isinstance(r.test.func, ast.Attribute) and r.test.func.attr == 'is_initialized'
            and self_attr(r.test.func.value, '_ctrl_blk') and not r.test.args):
        fail(m['__call__'], "expected 'return None if self._ctrl_blk.is_initialized() else data'")
    if len(call) == 2 and not isinstance(call[0], ast.Assert):
        fail(call[0], "only an assert may precede the return")
    out.append("(* is_initialized() = the output is not UNDEF *)\n"
               "Definition g_not_if_initialized (ctrl_out : val) (d : data) : fres :=\n"
               "  match ctrl_out with VUndef => FReplace d | _ => FReject end.")
    header = ("(* GENERATED by tools/gen_filters.py from edzed/blocklib/filters.py - do not edit.\n"
              "   Regenerated on every run of the C16 check. *)\n"
              "From Verif Require Import Values Filters.\nFrom Coq Require Import QArith Qabs.\nOpen Scope Q_scope.\n")
    return header + '\n'.join(out) + '\n'


def main():
    repo = Path(sys.argv[1] if len(sys.argv) > 1 else '/repo')
    dest = Path(sys.argv[2] if len(sys.argv) > 2
                else Path(__file__).resolve().parent.parent / 'coq/Gen/GenFilters.v')
    try:
        text = translate((repo / 'edzed/blocklib/filters.py').read_text())
    except TranslationError as err:
        print(f"TRANSLATION FAILED: {err}")
        return 3
    dest.parent.mkdir(exist_ok=True)
    if not dest.exists() or dest.read_text() != text:
        dest.write_text(text)
    print(f"generated {dest}")
    return 0


if __name__ == '__main__':
    sys.exit(main())
