#!/usr/bin/env python3
"""Regenerates MANIFEST.json from the table below (kept next to the checks it describes)."""
import json
import pathlib

ROOT = pathlib.Path(__file__).resolve().parent.parent
ALL = [f"C{n:02d}" for n in range(1, 21)]

LEVEL_NOTE = ("Trusted: Coq 8.16.1 kernel + vm_compute (no native_compute); theorems closed under "
              "the global context (Print Assumptions re-run on every check, recorded in the "
              "evidence); the hand-written Gallina model is tied to /repo only by this run's "
              "correspondence check (Python harness, virtual-time asyncio loop, value printer, "
              "exception->enum mapping).")

CHECKS = {
    'C20': dict(
        text="Theorems (Props/C20.v) for ALL event lists and all non-zero moduli over exact "
             "rationals: output = reference accumulator reduced once, range [0,M), return value = "
             "output, faulty put/unknown event change nothing, modulo 0 refused; link theorem "
             "agree->monitor. Tie (both kinds): (1) tools/gen_counter.py regenerates a Gallina rendering of "
             "class Counter from the source on every run and Gen/GenCounterProofs.v re-proves that it is "
             "the hand-written step/start/create functions; (2) the real Counter is run on "
             "generated/exhaustive event sequences and coqc evaluates the model and the monitor on what "
             "was observed.",
        technique="Coq proof (induction over event lists, Q arithmetic) + model regenerated from the source "
                  "by a fail-closed translator + differential correspondence evaluated by vm_compute",
        design_ref="DESIGN.md section 6/C20"),
    'C16': dict(
        text="Theorems (Props/C16.v): composition law of the filter pipeline over every split "
             "point (first false ends it, a mapping replaces the data, any other true value passes "
             "it on), complete Edge truth table for all flags and values, not_from_undef, Delta "
             "(pass list satisfies and is uniquely determined by the 'differs from the last PASSED "
             "value by >= delta' spec, for all sequences), IfOutput/NotIfInitialized, extensional "
             "dictionary specs of all 8 DataEdit operations and the chain law. Tie (both kinds): (1) "
             "tools/gen_filters.py regenerates not_from_undef/Edge/Delta/IfOutput/NotIfInitialized from "
             "edzed/blocklib/filters.py on every run and Gen/GenFiltersProofs.v re-proves that they are the "
             "model's definitions; (2) every case goes "
             "through the real Event.send into a probe block; coqc evaluates the model on the same "
             "filters/data and compares delivered data / rejection / exception class.",
        technique="Coq proof (list induction, association-list lemmas) + differential "
                  "correspondence evaluated by vm_compute; exhaustive Edge table",
        design_ref="DESIGN.md section 6/C16"),
    'C17': dict(
        text="Theorems (Props/C17.v) for ARBITRARY validator functions in every presence "
             "combination: a put is accepted iff allowed, check and schema all accept (schema "
             "consulted last, on the original value), rejected puts change nothing, after ANY put "
             "sequence the output is the result of the last accepted put and hence always a value "
             "the validators produced, refused initdef/expired value, restored values validated "
             "(Input and InputExp); link theorem agree->monitor. Tie: real Input/InputExp blocks "
             "with table-driven validators over a domain with equal-but-not-identical members, "
             "constructor outcome, start value, each put's return value and output.",
        technique="Coq proof (parametric in the validator functions, induction over put lists) + "
                  "differential correspondence evaluated by vm_compute",
        design_ref="DESIGN.md section 6/C17"),
    'C14': dict(
        text="Theorems (Props/C14.v): send delivers iff the life-cycle phase is initialising/running "
             "(is_ready), otherwise EdzedInvalidState and nothing delivered; for EVERY default and "
             "caller-supplied source string the delivered 'source' starts with '_ext_'; the positional "
             "value becomes 'value', all other items arrive unchanged; no user-given block name and "
             "no automatic name handed out starts with '_ext_'; link theorems agree->monitor. Tie: "
             "sends in 7 life-cycle phases of a real circuit on a virtual clock (incl. inside async "
             "init, between shutdown()/abort() and the task's reaction, inside a slow stop_async), "
             "data recorded at the destination's event() entry, names of dynamically created classes.",
        technique="Coq proof (string-prefix lemmas, case analysis over phases) + differential "
                  "correspondence evaluated by vm_compute",
        design_ref="DESIGN.md section 6/C14"),
    'C02': dict(
        text="Theorems (Props/C02.v) for every assignment history, initial output and fan-out: the "
             "(previous,value) pairs seen by each on_output event are exactly the successive changes "
             "(the independent spec `changes`), chained (first previous = initial output, next "
             "previous IS the preceding value, previous never == value), last change = final output; "
             "each on_every_output event gets exactly one pair per assignment; inside one assignment "
             "all on_output events in configuration order, then all on_every_output events; the "
             "destination receives exactly the pipeline result of C16. Tie: real Input / direct "
             "set_output / FuncBlock-in-simulator senders, deliveries grouped by Begin/End brackets "
             "from a wrapper, deliveries outside brackets, object identity of the chain.",
        technique="Coq proof (induction over assignment histories) + differential correspondence "
                  "evaluated by vm_compute",
        design_ref="DESIGN.md section 6/C02"),
    'C01': dict(
        text="Theorem (Props/C01.v, invariant proof by induction over arbitrary step lists): for EVERY "
             "circuit, every number/order of set_output steps - also interleaved with evaluations "
             "(CBlock->SBlock event feedback) - and every choice of the next block, at every idle point "
             "every combinational block is consistent with its function of the current outputs; "
             "specifications of Not/And/Or/Xor/Override/Compare (hysteresis fixpoint). Tie (both kinds): (1) "
             "tools/gen_cblocks.py regenerates the output functions of Not/And/Or/Xor/Compare/Override from "
             "edzed/blocklib/cblocks.py on every run and Gen/GenCBlocksProofs.v re-proves that they are the "
             "model's apply_fun; (2) the real "
             "simulator's schedule (wrappers around set_output/calc_output/eval_block of the instances) "
             "and output snapshots after wait_init() and after every burst must be accepted by the "
             "executable acceptor, and the consistency monitor is evaluated on the observed snapshots.",
        technique="Coq proof (simulation invariant, induction over schedules) + block functions regenerated "
                  "from the source by a fail-closed translator + trace acceptance and monitor evaluated by "
                  "vm_compute",
        design_ref="DESIGN.md section 6/C01"),
    'C10': dict(
        text="Theorems (Props/C10.v): no accepted schedule contains more than 3*|blocks| evaluations "
             "in one burst, the instability error is raised exactly at the (limit+1)-th attempt, a "
             "non-idle state always has an enabled step, idle => consistent; and the converse half: on a "
             "topologically numbered network whose path count fits into the limit, a burst of set_output "
             "calls followed by evaluations only can never end with the instability error, whatever the "
             "evaluation order (block b is evaluated at most 'number of paths ending in b' times: ghost "
             "counters + induction along the numbering). The monitor evaluates the same classification "
             "(few_paths, clean burst) on every observed run, see "
             "DESIGN.md. Tie: cyclic networks, event feedback loops and layered acyclic networks run on "
             "the real simulator with a watchdog for runs that never end.",
        technique="Coq proof (counter invariant over schedules; path-count bound by ghost counters) + "
                  "trace acceptance and monitor evaluated by vm_compute",
        design_ref="DESIGN.md section 6/C10"),
    'C11': dict(
        text="Theorems (Props/C11.v) for every event topology, handler/init script and fuel: every "
             "event() call - handled, vetoed, 'no event', unknown type, wrong parameters, failed, "
             "refused as recursive - leaves all guard flags as it found them; no handler of a block "
             "ever starts while another handler of the same block runs (also inside the "
             "'initialisation by an event' window); a call reaching a busy block is refused and any "
             "error passing through a handler aborts; conditional 'no event', unknown type and "
             "parameter errors never abort; link theorem agree->monitor. Tie: scripted probe SBlocks "
             "in random graphs with cycles/self-loops incl. init-time sends; per top-level event the "
             "exception class, Circuit.error, ordered handler log, per-block nesting depth and "
             "acceptance of follow-up events are compared with the model.",
        technique="Coq proof (induction on fuel with nested script induction) + differential "
                  "correspondence evaluated by vm_compute",
        design_ref="DESIGN.md section 6/C11"),
    'C15': dict(
        text="Theorems (Props/C15.v): every reference style resolves to the right object (object, "
             "name, '_ctrl', '_not_NAME' shortcut = a Not whose only input is NAME, Const, plain "
             "constant), the circuit grows by exactly one block of an unused name per shortcut and "
             "block names stay unique through the whole finalisation (one shared inverter), the "
             "connection biconditional B in ocon(A) <-> A in icon(B) <-> A feeds B, unknown/foreign/"
             "wrong-kind references are errors, names of event destinations and filter control blocks "
             "resolve to the block of that name and kind. The biconditional, conf=inputs, resolved "
             "names and frozenness are ALSO evaluated by the monitor on the data observed on the real "
             "circuit after an explicit finalize() and after a normal start. Input shapes: model "
             "Signature.v of check_signature() with theorems C15_signature_* (a start succeeds iff the names "
             "agree and every item has the declared shape; missing / unexpected names, a group for a single "
             "input, a single input for a group, wrong count, range bounds), evaluated on 46 real starts.",
        technique="Coq proof (list induction, NoDup preservation) + differential correspondence and "
                  "monitor evaluated by vm_compute",
        design_ref="DESIGN.md section 6/C15"),
    'C03': dict(
        text="Theorems (Props/C03.v) over all tables, instances and states: lookup precedence "
             "(specific rule > any-state rule; None target/missing rule rejects), Goto bypasses table "
             "and conditions, conditions consulted only for table events on an initialised FSM and all "
             "must hold, a rejected event changes nothing but on_notrans/cond log entries, exact log "
             "of an accepted unchained transition (exit action, on_exit, entry action, output, "
             "on_enter), nothing but callbacks is visible inside a chain of transitions (for every "
             "chain length), the chained event's data becomes the visible one, two chained requests "
             "and an endless chain are errors. Tie: FSM classes are created dynamically from the same "
             "tables; the complete ordered log of callbacks (with the tag seen through "
             "fsm_event_data) and probe deliveries, return values, state, output and Circuit.error "
             "are compared with the model event by event.",
        technique="Coq proof (structural lemmas over the transition engine, induction on the chain "
                  "fuel) + differential correspondence evaluated by vm_compute",
        design_ref="DESIGN.md section 6/C03"),
    'C19': dict(
        text="Theorems (Props/C19.v): timestr() is the exact inverse of convert() for every integer "
             "below 2^53 (string level: rendering with the library's decimal printer, parsing with "
             "the model's recogniser); convert() of EVERY traditional string - any subset of units in "
             "order, any letter case, white space before/inside/after, numbers of any length - is the "
             "documented unit arithmetic; empty input, a fraction in a larger unit, non-zero years/"
             "months are errors; time_period on None/negative/other. The model rounds like IEEE "
             "doubles, so the correspondence is bit-exact on every case (also timestr/timestr_approx "
             "at the rounding boundaries); the timestr_approx error bound is evaluated by the monitor "
             "on every observed string (its unbounded proof is not done).",
        technique="Coq proof (string-level parsing lemmas, decimal round trip, exact small-integer "
                  "arithmetic) + bit-exact differential correspondence evaluated by vm_compute",
        design_ref="DESIGN.md section 6/C19"),
    'C04': dict(
        text="Theorems (Props/C04.v) over every interleaving of external events, timer expirations "
             "and stops accepted by the model: duration precedence (event item > t_STATE > class "
             "default), at most one live timer handle and it is the one the FSM refers to and does "
             "not lie in the past, a handle that fires is the current one and fires exactly at its "
             "time (no stale timed event), a rejected timed event leaves the state without timer "
             "(no live handle, no reported expiry), nothing pending and nothing can fire after the "
             "stop; link theorem agree->monitor. Tie: generic timed FSMs, Timer and InputExp on the "
             "virtual clock with events before/at/after expiries; the interleaving taken by asyncio "
             "is the acceptor's input.",
        technique="Coq proof (invariant over step lists) + trace acceptance and monitor evaluated "
                  "by vm_compute",
        level_note="Trusted: Coq kernel/vm_compute, hand-written model tied by this run's "
                   "correspondence; that asyncio runs timer handles in (when, creation) order is not "
                   "proved (partial: the loop is the model's handle list), it is validated by the "
                   "acceptor on every case.",
        design_ref="DESIGN.md section 6/C04"),
    'C18': dict(
        text="Theorem (Props/C18.v): every step list the model accepts - any arrival pattern, interval "
             "and count - satisfies the monitor that reads observed steps only: each copy carries the "
             "latest matching event, copies of one event are numbered 1,2,3,... exactly `interval` "
             "apart from the event, never more than count, none missing when due, other event types "
             "are ignored and not forwarded, nothing after the stop; plus the step lemmas. Tie: "
             "explicit, implicit (Event(..., repeat=)) and chained Repeat blocks on the virtual clock, "
             "arrivals before/at/after repetitions, per block what it received and what its "
             "destination received in the exact interleaving, output, data items.",
        technique="Coq proof (simulation relation between the block's state and the observation-level "
                  "monitor, induction over step lists) + trace acceptance evaluated by vm_compute",
        level_note="Trusted: Coq kernel/vm_compute, hand-written model tied by this run's "
                   "correspondence; partial: asyncio.wait_for/Queue are not modelled - a timeout is "
                   "taken to be due exactly `interval` after the wait began, validated on every case.",
        design_ref="DESIGN.md section 6/C18"),
    'C09': dict(
        text="Theorems (Props/C09.v) for every ordering of error sources: the recorded error is "
             "write-once and is the FIRST delivery; exactly handler / output-calculation / "
             "synchronous-init / monitored-task errors, abort() and the control events reach the "
             "simulator, parameter errors, unknown events, async-init, restore and clean-up errors "
             "never do; a cancellation is a normal stop; run() raises the simulator's error, else the "
             "error of the failing supporting coroutine with the lowest index. Tie: tagged exceptions "
             "fired at chosen virtual instants (also the same instant, also racing with shutdown()), "
             "the order in which they reached Circuit.abort()/the simulator, Circuit.error, outcome of "
             "run()/shutdown(), is_ready() afterwards.",
        technique="Coq proof (fold over delivery lists) + differential correspondence and monitor "
                  "evaluated by vm_compute",
        level_note="Trusted: Coq kernel/vm_compute, hand-written model tied by this run's "
                   "correspondence; partial: the delivery order of errors raised in one instant by "
                   "different tasks is asyncio's - the observed order is the model's input.",
        design_ref="DESIGN.md section 6/C09"),
    'C06': dict(
        text="Theorems (Props/C06.v): a successfully handled event of a persistent sync_state block "
             "leaves exactly the new state under its key and changes nothing else; no write without "
             "sync_state, none after a handler failure (also not at stop), nothing after a failed "
             "start, time stamp at a regular stop, entries of vanished blocks removed and edzed-* "
             "kept; the restore decision (expiration None / <=0 / ts+exp<now / missing time stamp; an "
             "FSM state whose timer ran out is discarded, otherwise restored with the same ABSOLUTE "
             "expiration) and their composition crash_restart for every history prefix; link theorem "
             "agree->monitor. Tie: deep copies of a copying in-memory storage after init, after EVERY "
             "event a block handled (external or its own timer) and after the stop, compared with "
             "get_state(); second circuits started from 1..3 of these crash points after a downtime. An "
             "additional monitor clause (outside the link theorem): a state reported by get_state() never "
             "carries the expiration of a timer that is already over (blocks incl. an FSM whose timed "
             "event can be vetoed and a probe whose failing handler changes its state first).",
        technique="Coq proof (storage lemmas, step semantics of the persistence bookkeeping) + "
                  "differential correspondence and monitor evaluated by vm_compute",
        design_ref="DESIGN.md section 6/C06"),
    'C12': dict(
        text="The acceptor (Model/OutputAsync.v) specifies which step may follow which in each mode "
             "(wait: one run at a time in arrival order; cancel: a run is cancelled only when a newer "
             "put is waiting, older queued puts are discarded with a cancel report; start: each put "
             "starts its own run; the output counts runs incl. guard time, which ends exactly "
             "guard_time after the coroutine and cannot be shortened). Theorem (Props/C12.v): for "
             "every accepted step list that ends quiescent every accepted put has exactly one "
             "result event and nothing else has one (counting invariant over all reachable states). "
             "Tie: the ordered log of puts, coroutine start/end/cancellation, result events, output "
             "changes and the stop on the virtual clock must be accepted; the monitor re-checks the "
             "per-put accounting and the output tracking on the observed log.",
        technique="Coq proof (occurrence-count invariant over step lists) + trace acceptance and "
                  "monitor evaluated by vm_compute",
        level_note="Trusted: Coq kernel/vm_compute, hand-written acceptor tied by this run's "
                   "correspondence; partial: asyncio's ordering inside one instant and shield_cancel are "
                   "not modelled (the observed interleaving is the input); stop_timeout expiry is "
                   "outside the model (runs use a long stop_timeout).",
        design_ref="DESIGN.md section 6/C12"),
    'C05': dict(
        text="Model/Init.v is init_sblock, the three start-up phases with _run_tasks and the early "
             "initialisation by a pending event, for any list of blocks, any acyclic init-time event "
             "topology and any creation order. Theorems (Props/C05.v), for every run of the model: "
             "each block runs restore/init_regular/init_from_value at most once each and in this order "
             "(invariant over the mutually recursive init/event/output cascade); a pending event "
             "completes the synchronous steps before the handler; init_async only for blocks still "
             "uninitialised with a positive init_timeout, one task per block, total wait <= the "
             "largest init_timeout, a routine finishing within its timeout is never cancelled. Tie: "
             "call logs, wait_init() outcome and the duration of the asynchronous phase of probe blocks, "
             "InitAsync and ValuePoll must equal the model's. NOT a theorem: independence of the "
             "creation order and 'wait_init returns => all outputs defined and running' are decided by "
             "the monitor on exhaustive runs of every creation order of each sampled configuration.",
        technique="Coq proof (invariant by induction on the cascade depth) + model/implementation "
                  "correspondence and monitor by vm_compute; exhaustive creation-order enumeration",
        level_note="Trusted: Coq kernel/vm_compute, hand-written model tied by this run's correspondence; "
                   "partial: order-independence and the wait_init/first-evaluation clause are checked "
                   "per run, not proved; timers of one instant (completion == timeout) and cyclic "
                   "event topologies are excluded from generation.",
        design_ref="DESIGN.md section 6/C05"),
    'C08': dict(
        text="Model/Lifecycle.v is the clean-up discipline of run_forever/_stop_sblocks as an acceptor over "
             "the ordered log of start(), stop() and stop_async begin/end (the code iterates over sets, so "
             "the order inside the async and the sync group is free). Theorems (Props/C08.v), for every "
             "plan and every accepted log, whatever the termination cause or instant: the stop() calls are "
             "a duplicate-free permutation of exactly the blocks whose start() returned; every stop_async "
             "is over before the first block without asynchronous clean-up is stopped; nothing is owed in "
             "a final state; acceptance implies the counting/ordering clauses of the monitor. Tie: the log "
             "observed over a matrix fault site x termination cause x instant x second cause x circuit "
             "composition must be accepted. Observed on the implementation only (not theorems): no "
             "pending task or timer when run() is over, stop_data delivered last, restart and modification "
             "refused, asynchronous clean-up not longer than the largest stop_timeout, documented "
             "Event.shutdown() exists.",
        technique="Coq proof (permutation/ordering invariants of the acceptor) + log acceptance and "
                  "monitor by vm_compute; leak/stop_data/restart flags observed at run time",
        level_note="Trusted: Coq kernel/vm_compute, hand-written acceptor tied by this run's correspondence; "
                   "partial: the asyncio run-time (that a cancelled and awaited task is gone, timers) is "
                   "not modelled - leaks, stop_data order and restart/modify refusal are measured on the "
                   "implementation and only combined by the Coq monitor.",
        design_ref="DESIGN.md section 6/C08"),
    'C13': dict(
        text="Model/Interval.v gives the numeric semantics (padding, range checks incl. leap years, "
             "Python's tuple sort, membership, as_list, as_string), Model/IntervalParse.v the string "
             "notations (delimiters, separator priority, traditional formats with the regex-search "
             "semantics of _convert_str, ISO 8601 as Python 3.12 accepts it); both map every notation "
             "to one normal form. Theorems (Props/C13.v): time ranges = half-open arc on the circle of "
             "one day (wrap, equal endpoints = whole day), date ranges = closed arc on the 366-day "
             "circle, date-time ranges never wrap; normal form is full-length, range-checked, idempotent "
             "and sorted for every input; read-back of rendered endpoints (every valid time of day incl. "
             "microseconds, 366 dates, all month-name prefixes x 3 spellings; finite sweeps lifted to "
             "universal statements). Tie: as_list(), as_string(), membership of probe moments and rejection of "
             "every generated notation / sequence / malformed mutant must equal the model's; the monitor "
             "compares the normal forms of all notations of one interval, both round trips and the "
             "membership rule on the linear scales.",
        technique="Coq proof (lia over euclidean division, finite sweeps lifted with forallb_forall) + "
                  "model/implementation correspondence and monitor by vm_compute",
        level_note="Trusted: Coq kernel/vm_compute, hand-written model tied by this run's correspondence; "
                   "partial: notation equivalence and the round trip of whole interval strings and "
                   "date-times are decided per generated input (every notation must produce the model's "
                   "normal form), not by a theorem over all strings; Python's fromisoformat is modelled by "
                   "a hand-written grammar (calendar dates, no time zones).",
        design_ref="DESIGN.md section 6/C13"),
    'C07': dict(
        text="Model/TimeDate.v: pred = TimeDate.recalc/TimeSpan.recalc on the membership rules of "
             "Interval.v, alarm_points = the times of day a block registers with cron, timetable/"
             "bisect_left/sleeptime_us = the scheduling arithmetic of Cron._maintask. Theorems "
             "(Props/C07.v): between two readings of the same day with no alarm point in between the "
             "predicate does not change (so recalculating at alarm points suffices; TimeSpan changes at "
             "range end points only); False when nothing is configured or a set is empty; sleeptime is the "
             "forward distance incl. the 23h->0h wrap; every alarm and the 24 full hours are in the "
             "timetable, hence a wake-up exists within one hour of any instant; bisect_left "
             "specification. Tie: every recalc(now) result, the registered alarm times after each "
             "(re)configuration and every scheduler iteration (reading, reload/reset, chosen wake-up, "
             "sleep time taken from the debug log) must equal the model's. The property itself (sampled "
             "output = predicate except within 5 ms after a boundary and within 1 h after a forward jump; "
             "no simulation error) is decided by the Coq monitor on outputs sampled under a virtual wall "
             "clock.",
        technique="Coq proof (lia over lexicographic/linear time keys) + correspondence of recalc, "
                  "registration and scheduler iterations and output monitor by vm_compute",
        level_note="Trusted: Coq kernel/vm_compute, hand-written model tied by this run's correspondence; "
                   "partial: the three-step sleep loop and asyncio wake-up latency are not proved, the "
                   "claim 'output follows the clock' is checked on sampled runs (virtual days, jumps, "
                   "reconfiguration races), DST is not modelled (TZ=UTC).",
        design_ref="DESIGN.md section 6/C07"),
}

NOT_YET = "check not built yet in this round (planned: Coq model + theorems + correspondence, see DESIGN.md section 6)"


def main():
    checks = []
    for pid in ALL:
        if pid not in CHECKS:
            continue
        c = CHECKS[pid]
        checks.append(dict(
            property_id=pid,
            quick_cmd=f"./check {pid} --tier quick",
            thorough_cmd=f"./check {pid} --tier thorough",
            evidence_file=f"evidence/{pid}.json",
            replay_cmd_template=f"./check {pid} --replay {{path}}",
            engine="coq-model-correspondence",
            level_claimed=dict(category="proof", text=c['text'], design_ref=c['design_ref']),
            level_note=c.get('level_note', LEVEL_NOTE),
            technique=c['technique']))
    man = dict(
        version=1,
        setup_cmd="./setup.sh",
        hooks=dict(guard="EDZED_VERIF", enable="no source hooks: the harness wraps methods and "
                   "replaces module-level clock names at run time (EDZED_VERIF=1 is exported by "
                   "./check but nothing in /repo reads it)",
                   baseline_off_cmd="cd /repo && /venv/bin/python -m pytest -ra -q -p no:cacheprovider --timeout=900",
                   source_commits=[], add_only=True),
        engines=[dict(name="coq-model-correspondence", path="coq/ harness/",
                      serves_properties=[c['property_id'] for c in checks],
                      kind_free_text="Coq 8.16 models+theorems; Python harness runs real edzed "
                                     "under a virtual clock and lets coqc evaluate model+monitor "
                                     "on the observations")],
        checks=checks,
        notes="See DESIGN.md. Exit codes: 0 held, 1 VIOLATION line, 2 broken check (defect of /verif).",
        not_applicable=[dict(property_id=p, reason=NOT_YET) for p in ALL if p not in CHECKS])
    (ROOT / 'MANIFEST.json').write_text(json.dumps(man, indent=1) + "\n")


if __name__ == '__main__':
    main()
