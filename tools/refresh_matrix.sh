cd /verif
out=seeded/MATRIX.md
for id in "$@"; do
  prop=$(echo $id | cut -c1-3)
  grep -v "^| $id " $out > /tmp/m.tmp; mv /tmp/m.tmp $out
  res=$(tools/try_seed.sh $id quick $prop 2>&1)
  ex=$(echo "$res" | grep -o "exit=[0-9]*" | tail -1)
  nv=$(echo "$res" | grep -c "^VIOLATION")
  nn=$(echo "$res" | grep -c "no-failing-input-found")
  cl=$(for f in $(echo "$res" | grep "^VIOLATION" | sed 's/.*replay=\([^ ]*\).*/\1/'); do python3 -c "import json,sys; print(json.load(open('/verif/$f')).get('clause',''))" 2>/dev/null; done | sort -u | tr '\n' ' ')
  echo "| $id | $prop | $ex | $nv | $nn | $cl |" >> $out
done
(head -2 $out; tail -n +3 $out | sort) > /tmp/m.tmp; mv /tmp/m.tmp $out
