#!/bin/sh
# tools/confirm_seed.sh C20a  : confirm an independently produced seeded change in its scratch
# worktree (suite passes with it, demo fails with it and passes without), then store it under
# seeded/<id>/ and remove the worktree.
id="$1"; wt=/tmp/mut/$id; out=/tmp/mut/${id}_out
set -u
cd "$wt" || exit 2
git diff > /tmp/mut/$id.diff
[ -s /tmp/mut/$id.diff ] || { echo "no diff in worktree"; exit 2; }
export PYTHONPATH=$wt
suite=$(timeout 900 /venv/bin/python -m pytest -q -p no:cacheprovider -n 8 tests 2>&1 | tail -1)
demo_with=$(timeout 300 /venv/bin/python -m pytest -q -p no:cacheprovider -o asyncio_mode=auto $out/demo_test.py 2>&1 | tail -1)
git apply -R /tmp/mut/$id.diff
demo_without=$(timeout 300 /venv/bin/python -m pytest -q -p no:cacheprovider -o asyncio_mode=auto $out/demo_test.py 2>&1 | tail -1)
git apply /tmp/mut/$id.diff
echo "suite(with change): $suite"
echo "demo(with change): $demo_with"
echo "demo(without):     $demo_without"
case "$suite" in *failed*|*error*) echo "suite failed once ($suite), retrying without xdist (timing tests are load-sensitive)"
  suite=$(timeout 1800 /venv/bin/python -m pytest -q -p no:cacheprovider tests 2>&1 | tail -1);; esac
case "$suite" in *failed*|*error*) echo "REJECT: suite fails: $suite"; exit 1;; esac
case "$demo_with" in *failed*|*error*) ;; *) echo "REJECT: demo does not fail with change"; exit 1;; esac
case "$demo_without" in *failed*|*error*) echo "REJECT: demo fails without change"; exit 1;; esac
dst=/verif/seeded/$id; mkdir -p $dst
cp /tmp/mut/$id.diff $dst/patch.diff; cp $out/demo_test.py $dst/demo_test.py
/venv/bin/python - "$id" "$out/meta.json" "$dst/meta.json" "$suite" "$demo_with" "$demo_without" <<'P'
import json,sys
id_,src,dst,suite,dw,dwo=sys.argv[1:]
try: m=json.load(open(src))
except Exception: m={}
m['id']=id_
m['confirmed']={'suite_with_change':suite,'demo_with_change':dw,'demo_without_change':dwo,
  'how':'tools/confirm_seed.sh in the scratch worktree (pytest -n 8 tests; demo with change; git stash; demo without)'}
json.dump(m,open(dst,'w'),indent=1)
P
echo "stored $dst"
