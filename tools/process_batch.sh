#!/bin/sh
# tools/process_batch.sh C01e C02e ... : confirm each seeded change produced in /tmp/mut/<id>, run
# the property's quick check against it, record the line in seeded/MATRIX.md, remove the worktree
cd /verif
for id in "$@"; do
  r=$(tools/confirm_seed.sh $id 2>&1 | tail -1)
  case "$r" in stored*) ;; *) r=$(tools/confirm_seed.sh $id 2>&1 | tail -1);; esac
  case "$r" in stored*) ;; *) echo "== $id NOT CONFIRMED: $r"; continue;; esac
  prop=$(echo $id | cut -c1-3)
  out=seeded/MATRIX.md
  grep -v "^| $id " $out > /tmp/m.tmp; mv /tmp/m.tmp $out
  res=$(tools/try_seed.sh $id quick $prop 2>&1)
  ex=$(echo "$res" | grep -o "exit=[0-9]*" | tail -1)
  nv=$(echo "$res" | grep -c "^VIOLATION")
  nn=$(echo "$res" | grep -c "no-failing-input-found")
  cl=$(for f in $(echo "$res" | grep "^VIOLATION" | sed 's/.*replay=\([^ ]*\).*/\1/'); do python3 -c "import json,sys; print(json.load(open('/verif/$f')).get('clause',''))" 2>/dev/null; done | sort -u | tr '\n' ' ')
  echo "| $id | $prop | $ex | $nv | $nn | $cl |" >> $out
  echo "== $id: $ex violations=$nv ($cl)"
  git -C /repo worktree remove --force /tmp/mut/$id 2>/dev/null; rm -rf /tmp/mut/${id}_out
done
(head -2 seeded/MATRIX.md; tail -n +3 seeded/MATRIX.md | sort) > /tmp/m.tmp; mv /tmp/m.tmp seeded/MATRIX.md
git -C /repo worktree prune
