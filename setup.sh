#!/bin/sh
# MANIFEST.setup_cmd: full offline build of the Coq development (full .vo, never -vos).
set -e
cd "$(dirname "$0")/coq"
if grep -rnE '\b(Admitted|admit|Axiom|Parameter|Conjecture)\b|Unset Guard|bypass_check' --include='*.v' Base Model Proofs Props | grep -v '(\*.*\*)' ; then
  echo "forbidden construct found" >&2; exit 1
fi
coq_makefile -f _CoqProject -o Makefile > /dev/null
timeout 3000 make -j16 > build.log 2>&1 || { tail -50 build.log; exit 1; }
echo "coq build ok: $(grep -c '^COQC' build.log) files"
